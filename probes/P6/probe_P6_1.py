"""probe_P6_1: optimised for-loops over bytes objects yield wrong items (C14)."""
import os, sys, shutil, subprocess, sysconfig, tempfile, importlib.util, types

ROOT = os.path.dirname(os.path.abspath(__file__))
sys.path.insert(0, ROOT)


def build(src, name, workdir):
    """Compile `src` (Cython source text) with the compiler of this checkout, return the imported module."""
    from Cython.Compiler.Main import compile as cy_compile, CompilationOptions
    from Cython.Compiler import Options
    pyx = os.path.join(workdir, name + '.pyx')
    with open(pyx, 'w') as f:
        f.write(src)
    res = cy_compile(pyx, CompilationOptions(Options.default_options, language_level=3))
    if res.num_errors:
        raise RuntimeError('cython compilation failed')
    so = os.path.join(workdir, name + '.so')
    cc = os.environ.get('CC', 'gcc')
    subprocess.check_call([cc, '-shared', '-fPIC', '-O1', '-DNDEBUG', '-fwrapv', '-w',
                           '-I', sysconfig.get_paths()['include'],
                           os.path.join(workdir, name + '.c'), '-o', so])
    spec = importlib.util.spec_from_file_location(name, so)
    mod = importlib.util.module_from_spec(spec)
    spec.loader.exec_module(mod)
    return mod


def interpret(src, name):
    """Run the same source text in CPython."""
    mod = types.ModuleType(name)
    exec(compile(src, name + '.py', 'exec'), mod.__dict__)
    return mod


def call(f, *args):
    try:
        return ('returned', f(*args))
    except BaseException as e:
        return ('raised', type(e).__name__)

# ---------------------------------------------------------------------------
# Defect 1: optimised for-loops over bytes do not produce the Python 3 items
#   (a) bytes LITERAL + Python-object loop target -> 1-byte 'bytes' objects instead of ints
#   (b) bytes VARIABLE (or unsigned char* slice) + C integer target -> negative values for bytes >= 0x80
# ---------------------------------------------------------------------------

# Part (a): plain Python source, run compiled and interpreted.
SRC_A = r'''
MODULE_LEVEL = []
for z in b'a\xff':
    MODULE_LEVEL.append(z)

def plus_one():
    out = []
    for z in b'a\xff':
        out.append(z + 1)
    return out

def rev():
    return [z for z in reversed(b'a\xff')]

def enum():
    return [(i, z) for i, z in enumerate(b'a\xff')]

def value_after_loop():
    z = None
    for z in b'a\xff':
        pass
    return z

def nested():
    out = []
    for a in b'ab':
        for b in b'cd':
            out.append(a * 256 + b)
    return out
'''

# Part (b): typed code.  The reference is the CPython meaning of the same loop (items of bytes are 0..255).
SRC_B = r'''
def bytes_var_int_target(bytes data):
    cdef int c
    out = []
    for c in data:
        out.append(c)
    return out

def bytes_var_uint_target(bytes data):
    cdef unsigned int c
    out = []
    for c in data:
        out.append(c)
    return out

def bytes_var_reversed(bytes data):
    cdef long c
    out = []
    for c in reversed(data):
        out.append(c)
    return out

def bytes_var_enumerate(bytes data):
    cdef int i, c
    out = []
    for i, c in enumerate(data):
        out.append((i, c))
    return out

def bytes_var_sum(bytes data):
    cdef int c
    cdef long total = 0
    for c in data:
        total += c
    return total

def uchar_ptr_slice(bytes data):
    cdef unsigned char* p = data
    cdef int c
    out = []
    for c in p[:len(data)]:
        out.append(c)
    return out

def index_for_comparison(bytes data):
    cdef int c
    cdef Py_ssize_t i
    out = []
    for i in range(len(data)):
        c = data[i]
        out.append(c)
    return out

def literal_for_comparison():
    cdef int c
    out = []
    for c in b'\x00\x7f\x80\xff':
        out.append(c)
    return out
'''


def main():
    workdir = tempfile.mkdtemp(prefix='probe_P6_1_')
    bad = 0
    try:
        cm = build(SRC_A, 'p6_1a', workdir)
        pm = interpret(SRC_A, 'p6_1a')
        print("(a) bytes literal, Python-object loop target")
        if cm.MODULE_LEVEL != pm.MODULE_LEVEL:
            bad += 1
            print("  DIFF module-level 'for z in b\"a\\xff\"': cython=%r cpython=%r" % (cm.MODULE_LEVEL, pm.MODULE_LEVEL))
        for fname in ('plus_one', 'rev', 'enum', 'value_after_loop', 'nested'):
            r1, r2 = call(getattr(cm, fname)), call(getattr(pm, fname))
            if r1 != r2:
                bad += 1
                print("  DIFF %s(): cython %s %r, cpython %s %r" % ((fname,) + r1 + r2))

        m = build(SRC_B, 'p6_1b', workdir)
        print("(b) bytes variable, C integer loop target")
        inputs = [b'', b'a', b'\x7f', b'\x80', b'\xff', b'\x00\x7f\x80\xff', bytes(range(120, 136)), bytes(range(256))]
        for data in inputs:
            ref = list(data)
            checks = [
                ('bytes_var_int_target', ref),
                ('bytes_var_uint_target', ref),
                ('bytes_var_reversed', ref[::-1]),
                ('bytes_var_enumerate', list(enumerate(data))),
                ('bytes_var_sum', sum(data)),
                ('uchar_ptr_slice', ref),
                ('index_for_comparison', ref),
            ]
            for fname, expected in checks:
                got = call(getattr(m, fname), data)
                if got != ('returned', expected):
                    bad += 1
                    if len(data) <= 4:
                        print("  DIFF %s(%r): cython %s %r, cpython gives %r" % (fname, data, got[0], got[1], expected))
                    elif fname == 'bytes_var_sum':
                        print("  DIFF %s(<%d bytes>): cython %r, cpython gives %r" % (fname, len(data), got[1], expected))
        got = m.literal_for_comparison()
        print("  (for comparison: the same loop over the literal b'\\x00\\x7f\\x80\\xff' gives %r)" % (got,))
    finally:
        shutil.rmtree(workdir, ignore_errors=True)
    print("%d differing cases" % bad)
    return 1 if bad else 0


if __name__ == '__main__':
    sys.exit(main())
