#!/usr/bin/env python
"""
probe_P5_3 -- C05 (bool): implicit coercion of a C integer to 'bint' is a plain
C narrowing assignment to 'int' instead of a truth test, so the Python bool that
comes back is wrong for every value whose low 32 bits are zero, and the stored
'bint' is not normalised to 0/1.

    def f(unsigned long long flags, unsigned long long mask):
        cdef bint is_set = flags & mask        # mask = 1 << 40
        return is_set                          # -> False, CPython bool(flags & mask) -> True

The explicit spellings  <bint>x,  <bool>x,  bool(x),  'not not x'  and  'True if x else False'
all yield True for the same C value (they emit '(x != 0)'), so the result depends on
whether the coercion is written explicitly or happens implicitly (assignment, argument
passing to a 'bint' parameter, 'return' in a function declared to return bint, struct
field / extension type attribute assignment).

Responsible: ExprNode.coerce_to() in Cython/Compiler/ExprNodes.py -- for two C types it
only checks dst_type.assignable_from(src_type) and returns the node unchanged; no
CoerceToBooleanNode is inserted when dst_type is c_bint_type (TypecastNode does insert it).

Run:  /venv/bin/python probe_P5_3.py      (from the worktree root)
Exit status 1 if the defect is present, 0 otherwise.
"""
import os, sys, subprocess, sysconfig, tempfile, shutil, importlib.util

ROOT = os.path.dirname(os.path.abspath(__file__))
sys.path.insert(0, ROOT)

PYX = r'''
# ---- implicit coercions: C integer -> bint ----
def assign(long long x):
    cdef bint b = x
    return b
def assign_unsigned(unsigned long long x):
    cdef bint b = x
    return b
def assign_size_t(size_t x):
    cdef bint b = x
    return b
def masked(unsigned long long flags, unsigned long long mask):
    cdef bint is_set = flags & mask
    return is_set
cdef bint c_returns_bint(long long x):
    return x
def via_return(long long x):
    return c_returns_bint(x)
cdef object c_takes_bint(bint b):
    return b
def via_argument(long long x):
    return c_takes_bint(x)
cdef struct S:
    bint flag
def via_struct_field(long long x):
    cdef S s
    s.flag = x
    return s.flag
cdef class K:
    cdef public bint flag
    def set(self, long long x):
        self.flag = x
def via_attribute(long long x):
    k = K()
    k.set(x)
    return k.flag
def from_len(obj):
    cdef bint nonempty = len(obj)
    return nonempty

# ---- explicit spellings of the same conversion ----
def cast_bint(long long x):
    return <bint>x
def cast_bool(long long x):
    return <bool>x
def builtin_bool(long long x):
    return bool(x)
def not_not(long long x):
    return not not x

# ---- the stored bint is not normalised ----
def normalised(int x):
    cdef bint b = x
    return b, <int>b, b == True, b is True
'''


def build(name, src, workdir):
    from Cython.Compiler.Main import compile as cycompile, CompilationOptions, default_options
    pyx = os.path.join(workdir, name + '.pyx')
    with open(pyx, 'w') as f:
        f.write(src)
    res = cycompile(pyx, CompilationOptions(default_options, language_level=3))
    if res.num_errors:
        raise RuntimeError('cython compilation failed')
    so = os.path.join(workdir, name + sysconfig.get_config_var('EXT_SUFFIX'))
    subprocess.check_call(['gcc', '-shared', '-fPIC', '-O1', '-w', '-fno-strict-overflow',
                           '-I' + sysconfig.get_paths()['include'], res.c_file, '-o', so])
    spec = importlib.util.spec_from_file_location(name, so)
    mod = importlib.util.module_from_spec(spec)
    spec.loader.exec_module(mod)
    return mod


class BigLen:
    def __len__(self):
        return 1 << 32


def main():
    workdir = tempfile.mkdtemp(prefix='probe_P5_3_')
    bad = []
    try:
        m = build('probe_p5_3_mod', PYX, workdir)
        values = [0, 1, 2, 255, 256, (1 << 31) - 1, 1 << 31, 1 << 32, 3 << 32, 1 << 40,
                  (1 << 62), (1 << 63) - 1 - 0xFFFFFFFF, (1 << 63) - 1]
        implicit = ['assign', 'assign_unsigned', 'assign_size_t', 'via_return', 'via_argument',
                    'via_struct_field', 'via_attribute']
        explicit = ['cast_bint', 'cast_bool', 'builtin_bool', 'not_not']
        for v in values:
            exp = bool(v)                       # CPython
            row = []
            for fn in implicit + explicit:
                got = getattr(m, fn)(v)
                row.append((fn, got))
                if got is not exp:
                    bad.append((fn, v, exp, got))
            wrong = [fn for fn, got in row if got is not exp]
            print("x = %-20d bool(x) = %-5s %s" % (v, exp, ("WRONG in: " + ", ".join(wrong)) if wrong else "ok"))

        for flags, mask in ((1 << 40, 1 << 40), (0xFF00000000, 0x0100000000), (5, 4)):
            exp = bool(flags & mask)
            got = m.masked(flags, mask)
            print("masked(%#x, %#x): expected %s, got %s%s" % (flags, mask, exp, got, '' if got is exp else '   <-- DIFFERS'))
            if got is not exp:
                bad.append(('masked', (flags, mask), exp, got))

        exp, got = bool(len(BigLen())), m.from_len(BigLen())
        print("cdef bint nonempty = len(obj) with len(obj) == 2**32: expected %s, got %s%s" % (
            exp, got, '' if got is exp else '   <-- DIFFERS'))
        if got is not exp:
            bad.append(('from_len', 1 << 32, exp, got))

        for v in (1, 2, 256):
            b = bool(v)
            exp = (b, int(b), b == True, b is True)
            got = m.normalised(v)
            print("normalised(%d): expected %r, got %r%s" % (v, exp, got, '' if got == exp else '   <-- DIFFERS'))
            if got != exp:
                bad.append(('normalised', v, exp, got))
    finally:
        shutil.rmtree(workdir, ignore_errors=True)

    if bad:
        print("\nDEFECT PRESENT: %d differing cases" % len(bad))
        return 1
    print("\nno divergence found")
    return 0


if __name__ == '__main__':
    sys.exit(main())
