#!/usr/bin/env python
"""
probe_P5_1 -- C05: C enum value -> Python conversion truncates to C 'int'.

A 'cpdef enum' whose values do not all fit a C 'int' (e.g. a flag enum that
uses bit 31, or a 64 bit enum) has a C representation that is wider than /
differently signed from 'int'.  Python -> C conversion of such an enum is
exact (it uses sizeof(enum) and its signedness), but C -> Python conversion
(__Pyx_Enum_<name>_to_py, Cython/Utility/CpdefEnums.pyx::EnumTypeToPy) does
'<int>c_val' for every value that is not literally one of the declared names
and therefore returns a DIFFERENT integer.

The same truncation happens for constants of an anonymous 'cdef enum:' block
(typed as C 'int' by Cython, PyrexTypes.CAnonEnumType).

Run:  /venv/bin/python probe_P5_1.py      (from the worktree root)
Exit status 1 if the defect is present, 0 otherwise.
"""
import os, sys, subprocess, sysconfig, tempfile, shutil, importlib.util

ROOT = os.path.dirname(os.path.abspath(__file__))
sys.path.insert(0, ROOT)

PYX = r'''
cpdef enum Flags:           # classic flag enum using bit 31 -> C type is 'unsigned int'
    F_LOW  = 1
    F_HIGH = 0x80000000

cpdef enum Wide:            # 64 bit enum (signed because of W_NEG)
    W_NEG = -1
    W_ONE = 1
    W_TOP = 0x4000000000000000

cdef enum:                  # anonymous enum
    ANON_MAX = 0xFFFFFFFF

def sizes():
    return sizeof(Flags), sizeof(Wide)

# Python -> C -> Python round trip through the enum type
def flags_rt(Flags f):
    return f
# Python -> C, then the C value widened in C (no enum->Python conversion involved)
def flags_c_value(Flags f):
    return <long long>f

def wide_rt(Wide w):
    return w
def wide_c_value(Wide w):
    return <long long>w

def anon_as_object():
    return ANON_MAX                 # C enum constant -> Python
def anon_c_value():
    return <long long>ANON_MAX      # the value the C compiler sees
'''


def build(name, src, workdir):
    from Cython.Compiler.Main import compile as cycompile, CompilationOptions, default_options
    pyx = os.path.join(workdir, name + '.pyx')
    with open(pyx, 'w') as f:
        f.write(src)
    res = cycompile(pyx, CompilationOptions(default_options, language_level=3))
    if res.num_errors:
        raise RuntimeError('cython compilation failed')
    so = os.path.join(workdir, name + sysconfig.get_config_var('EXT_SUFFIX'))
    subprocess.check_call(['gcc', '-shared', '-fPIC', '-O1', '-w', '-fno-strict-overflow',
                           '-I' + sysconfig.get_paths()['include'], res.c_file, '-o', so])
    spec = importlib.util.spec_from_file_location(name, so)
    mod = importlib.util.module_from_spec(spec)
    spec.loader.exec_module(mod)
    return mod, res.c_file


def main():
    workdir = tempfile.mkdtemp(prefix='probe_P5_1_')
    bad = []
    try:
        m, c_file = build('probe_p5_1_mod', PYX, workdir)
        with open(c_file) as f:
            c_src = f.read()
        assert '__Pyx_Enum_' in c_src and '_to_py' in c_src, "enum to-py helper not used"
        print("sizeof(Flags), sizeof(Wide) =", m.sizes())

        def check(label, rt, cval, v):
            try:
                c = cval(v)
            except OverflowError:
                return  # does not fit the C enum: raising is what the property asks for
            got = rt(v)
            ok = (int(got) == v == c)
            print("%-8s input=%-22d C value=%-22d -> Python %r%s" % (
                label, v, c, got, "" if ok else "   <-- DIFFERS"))
            if not ok:
                bad.append((label, v, c, got))

        for v in (0, 1, 2, 0x7FFFFFFF, 0x80000000, 0x80000001, 0xC0000000, 0xFFFFFFFE, 0xFFFFFFFF):
            check('Flags', m.flags_rt, m.flags_c_value, v)
        for v in (-1, 1, 3, 0x7FFFFFFF, 0x80000000, -0x80000001, 0x100000000, 0x100000001,
                  0x4000000000000000, 0x4000000000000001, 0x7FFFFFFFFFFFFFFF, -0x8000000000000000):
            check('Wide', m.wide_rt, m.wide_c_value, v)

        a_obj, a_c = m.anon_as_object(), m.anon_c_value()
        ok = (a_obj == a_c == 0xFFFFFFFF)
        print("anonymous enum constant 0xFFFFFFFF: C value=%d -> Python %r%s" % (
            a_c, a_obj, "" if ok else "   <-- DIFFERS"))
        if not ok:
            bad.append(('anon', 0xFFFFFFFF, a_c, a_obj))
    finally:
        shutil.rmtree(workdir, ignore_errors=True)

    if bad:
        print("\nDEFECT PRESENT: %d C enum values converted to a different Python integer" % len(bad))
        return 1
    print("\nno divergence found")
    return 0


if __name__ == '__main__':
    sys.exit(main())
