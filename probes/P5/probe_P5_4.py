#!/usr/bin/env python
"""
probe_P5_4 -- C05 (char from bytes of length 1): a single-byte bytes literal >= b'\x80'
that is coerced to a C integer becomes a NEGATIVE number (on platforms where plain
'char' is signed, i.e. x86/x86-64 Linux, macOS, Windows), although its integer value
in Python - and Cython's own compile-time value for it - is 128..255.

    ord(b'\xff') == b'\xff'[0] == 255                     # CPython
    cdef long v = b'\xff'                  -> v == -1     # Cython
    cdef unsigned char c = 255
    c == b'\xff'                           -> False       # compares 255 with -1
    c in (b'\xff', b'\xfe')                -> False       # (switch on '\377', '\376')
    c in b'\xff\xfe'                       -> True        # different code path, correct

Responsible: BytesNode.coerce_to() (Cython/Compiler/ExprNodes.py) turns the literal into
CharNode(type=c_char_type, constant_result=ord(value)); CharNode.calculate_result_code()
emits the C character constant '\377', whose value as C 'int' is -1 with signed char.
The node's constant_result (255) and the value of the generated C expression (-1) disagree.
Coercion to 'unsigned char' alone is right (255) because C wraps -1 back.

Run:  /venv/bin/python probe_P5_4.py      (from the worktree root)
Exit status 1 if the defect is present, 0 otherwise.
"""
import os, sys, subprocess, sysconfig, tempfile, shutil, importlib.util

ROOT = os.path.dirname(os.path.abspath(__file__))
sys.path.insert(0, ROOT)

LITS = [0x00, 0x41, 0x7f, 0x80, 0xfe, 0xff]

PYX = ''
for b in LITS:
    PYX += r'''
def as_long_{b:02x}():
    cdef long v = b'\x{b:02x}'
    return v
def as_int_{b:02x}():
    cdef int v = b'\x{b:02x}'
    return v
def as_ullong_{b:02x}():
    cdef unsigned long long v = b'\x{b:02x}'
    return v
def as_uchar_{b:02x}():
    cdef unsigned char v = b'\x{b:02x}'
    return v
def eq_uchar_{b:02x}(unsigned char c):
    return c == b'\x{b:02x}'
def eq_int_{b:02x}(int c):
    return c == b'\x{b:02x}'
def ord_{b:02x}():
    cdef long v = ord(b'\x{b:02x}')
    return v
'''.format(b=b)
PYX += r'''
def classify(unsigned char c):
    # becomes a C switch statement
    if c == b'\xff':
        return 'FF'
    elif c == b'\xfe':
        return 'FE'
    elif c == b'A':
        return 'A'
    return 'other'
def in_tuple(unsigned char c):
    return c in (b'\xff', b'\xfe', b'A')
def in_bytes(unsigned char c):
    return c in b'\xff\xfeA'
'''


def build(name, src, workdir):
    from Cython.Compiler.Main import compile as cycompile, CompilationOptions, default_options
    pyx = os.path.join(workdir, name + '.pyx')
    with open(pyx, 'w') as f:
        f.write(src)
    res = cycompile(pyx, CompilationOptions(default_options, language_level=3))
    if res.num_errors:
        raise RuntimeError('cython compilation failed')
    so = os.path.join(workdir, name + sysconfig.get_config_var('EXT_SUFFIX'))
    subprocess.check_call(['gcc', '-shared', '-fPIC', '-O1', '-w', '-fno-strict-overflow',
                           '-I' + sysconfig.get_paths()['include'], res.c_file, '-o', so])
    spec = importlib.util.spec_from_file_location(name, so)
    mod = importlib.util.module_from_spec(spec)
    spec.loader.exec_module(mod)
    return mod


def main():
    workdir = tempfile.mkdtemp(prefix='probe_P5_4_')
    bad = []

    def check(label, got, exp):
        flag = '' if got == exp else '   <-- DIFFERS'
        print("  %-44s expected %-6r got %r%s" % (label, exp, got, flag))
        if got != exp:
            bad.append((label, exp, got))

    try:
        m = build('probe_p5_4_mod', PYX, workdir)
        for b in LITS:
            lit = bytes([b])
            val = lit[0]                       # CPython: integer value of the 1-byte string
            assert val == ord(lit) == b
            print("literal %r  (CPython integer value %d)" % (lit, val))
            check("cdef long v = %r" % lit, getattr(m, 'as_long_%02x' % b)(), val)
            check("cdef int v = %r" % lit, getattr(m, 'as_int_%02x' % b)(), val)
            check("cdef unsigned long long v = %r" % lit, getattr(m, 'as_ullong_%02x' % b)(), val)
            check("cdef unsigned char v = %r" % lit, getattr(m, 'as_uchar_%02x' % b)(), val)
            check("cdef long v = ord(%r)" % lit, getattr(m, 'ord_%02x' % b)(), val)
            check("(unsigned char)%d == %r" % (val, lit), getattr(m, 'eq_uchar_%02x' % b)(val), True)
            check("(int)%d == %r" % (val, lit), getattr(m, 'eq_int_%02x' % b)(val), True)
            check("(int)%d == %r" % (val - 256, lit), getattr(m, 'eq_int_%02x' % b)(val - 256), False)
        print("if/elif chain and 'in' tests on an unsigned char")
        for c, name in ((0xff, 'FF'), (0xfe, 'FE'), (0x41, 'A'), (0x00, 'other')):
            check("classify(%#x)" % c, m.classify(c), name)
            check("%#x in (b'\\xff', b'\\xfe', b'A')" % c, m.in_tuple(c), c in (0xff, 0xfe, 0x41))
            check("%#x in b'\\xff\\xfeA'" % c, m.in_bytes(c), c in b'\xff\xfeA')
    finally:
        shutil.rmtree(workdir, ignore_errors=True)

    if bad:
        print("\nDEFECT PRESENT: %d differing cases" % len(bad))
        return 1
    print("\nno divergence found")
    return 0


if __name__ == '__main__':
    sys.exit(main())
