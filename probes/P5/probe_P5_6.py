#!/usr/bin/env python
"""
probe_P5_6 -- C05, secondary observations (weaker than probe_P5_1..5; see FINDINGS.md).

 (a) 'x: int' / 'cdef cython.py_int x' (a *Python* int typed variable) silently converts
     any number with PyNumber_Long(): 3.9 -> 3, Fraction(7, 2) -> 3, True -> 1,
     MyInt(4) -> int 4.   CPython ignores the annotation and keeps the object.
     (TypeConversion.c::__Pyx__PyInt_FromNumber via BuiltinObjectType.convert_to_basetype)
 (b) integer literals / compile-time constants that do not fit the C target type are
     emitted as C literals and wrap silently instead of raising OverflowError:
     cdef long long v = 18446744073709551616 -> 0 ;  DEF BIG = 2**40; cdef int v = BIG -> 0
     (the same literal routed through a Python object raises OverflowError).
 (c) indexing a str / bytes typed variable that holds None into Py_UCS4 / char has no None
     check (nonecheck=False default): reads memory behind the None object and reports
     IndexError (or aborts in a Python debug build) instead of TypeError.

Run:  /venv/bin/python probe_P5_6.py      (from the worktree root)
Exit status 1 if any of the divergences is present, 0 otherwise.
"""
import os, sys, subprocess, sysconfig, tempfile, shutil, importlib.util
from fractions import Fraction

ROOT = os.path.dirname(os.path.abspath(__file__))
sys.path.insert(0, ROOT)

PY_SRC = r'''
def ann(x: int):
    return x
def local(x):
    y: int = x
    return y
'''

PYX = PY_SRC + r'''
def lit_ll():
    cdef long long v = 18446744073709551616
    return v
def lit_ll_via_object():
    cdef object o = 18446744073709551616
    cdef long long v = o
    return v
DEF BIG = 2**40
def def_int():
    cdef int v = BIG
    return v
def def_int_via_object():
    cdef object o = BIG
    cdef int v = o
    return v
def first_char(str s):
    cdef Py_UCS4 c = s[0]
    return c
def first_byte(bytes b):
    cdef char c = b[0]
    return c
'''


def build(name, src, workdir):
    from Cython.Compiler.Main import compile as cycompile, CompilationOptions, default_options
    pyx = os.path.join(workdir, name + '.pyx')
    with open(pyx, 'w') as f:
        f.write(src)
    res = cycompile(pyx, CompilationOptions(default_options, language_level=3))
    if res.num_errors:
        raise RuntimeError('cython compilation failed')
    so = os.path.join(workdir, name + sysconfig.get_config_var('EXT_SUFFIX'))
    # -DNDEBUG: CPython's own assert()s in its inline header functions are disabled, as in any release build
    subprocess.check_call(['gcc', '-shared', '-fPIC', '-O1', '-w', '-DNDEBUG', '-fno-strict-overflow',
                           '-I' + sysconfig.get_paths()['include'], res.c_file, '-o', so])
    spec = importlib.util.spec_from_file_location(name, so)
    mod = importlib.util.module_from_spec(spec)
    spec.loader.exec_module(mod)
    return mod


def call(f, *args):
    try:
        r = f(*args)
        return '%s:%r' % (type(r).__name__, r)
    except Exception as e:
        return type(e).__name__


class MyInt(int):
    pass


def main():
    workdir = tempfile.mkdtemp(prefix='probe_P5_6_')
    bad = []
    try:
        m = build('probe_p5_6_mod', PYX, workdir)
        ref = {}
        exec(PY_SRC, ref)                      # the same source under CPython

        print("(a) Python-int typed argument / local")
        for o in (3, 3.9, -3.9, Fraction(7, 2), True, MyInt(4)):
            for fn in ('ann', 'local'):
                exp, got = call(ref[fn], o), call(getattr(m, fn), o)
                flag = '' if exp == got else '   <-- DIFFERS'
                print("  %-6s(%-15r) CPython %-22s Cython %s%s" % (fn, o, exp, got, flag))
                if exp != got:
                    bad.append((fn, o, exp, got))

        print("(b) out-of-range literal / DEF constant assigned to a C integer")
        for fn, exp in (('lit_ll', 'OverflowError'), ('lit_ll_via_object', 'OverflowError'),
                        ('def_int', 'OverflowError'), ('def_int_via_object', 'OverflowError')):
            got = call(getattr(m, fn))
            flag = '' if exp == got else '   <-- DIFFERS'
            print("  %-20s expected %-14s got %s%s" % (fn, exp, got, flag))
            if exp != got:
                bad.append((fn, None, exp, got))

        print("(c) None in a str / bytes typed variable, indexed into a C character")
        for fn in ('first_char', 'first_byte'):
            exp, got = 'TypeError', call(getattr(m, fn), None)
            flag = '' if exp == got else '   <-- DIFFERS'
            print("  %-12s(None) expected %-10s got %s%s" % (fn, exp, got, flag))
            if exp != got:
                bad.append((fn, None, exp, got))
    finally:
        shutil.rmtree(workdir, ignore_errors=True)

    if bad:
        print("\nDIVERGENCES PRESENT: %d differing cases" % len(bad))
        return 1
    print("\nno divergence found")
    return 0


if __name__ == '__main__':
    sys.exit(main())
