#!/usr/bin/env python
"""
probe_P5_2 -- C05: objects that ARE integers (implement __index__) are rejected
with TypeError by the Python -> C integer conversion, for every C integer type
except Py_ssize_t / Py_hash_t.

CPython's definition of "this object is an integer" is the __index__ protocol
(operator.index, PyNumber_Index, PyLong_AsLong & friends since 3.8/3.10,
struct.pack, array.array item assignment, ctypes.c_int(), range(), ...).
Cython's CIntFromPy helper funnels every non-int object through
__Pyx_PyNumber_Long() (Cython/Utility/TypeConversion.c) which, in the default
CPython configuration (CYTHON_USE_TYPE_SLOTS=1), looks ONLY at the nb_int slot
(__int__) and never at nb_index.  So

    class Idx:                      # a perfectly valid integer object
        def __index__(self): return 5

    def f(int x): return x          # f(Idx()) -> TypeError: an integer is required

fails, while the lossy  f(5.9) -> 5  is accepted.  Cython's own Py_ssize_t
conversion (__Pyx_PyIndex_AsSsize_t) and the *same* CIntFromPy helper compiled with
CYTHON_USE_TYPE_SLOTS=0 (it then calls PyNumber_Long(), which honours __index__)
both return 5, so the result depends on the C type and on a build macro.

Run:  /venv/bin/python probe_P5_2.py      (from the worktree root)
Exit status 1 if the defect is present, 0 otherwise.
"""
import os, sys, subprocess, sysconfig, tempfile, shutil, importlib.util
import operator, struct, array, ctypes

ROOT = os.path.dirname(os.path.abspath(__file__))
sys.path.insert(0, ROOT)

TYPES = [
    ('char', 'char'), ('uchar', 'unsigned char'), ('short', 'short'), ('ushort', 'unsigned short'),
    ('int', 'int'), ('uint', 'unsigned int'), ('long', 'long'), ('ulong', 'unsigned long'),
    ('llong', 'long long'), ('ullong', 'unsigned long long'), ('size', 'size_t'),
    ('ssize', 'Py_ssize_t'), ('hash', 'Py_hash_t'), ('ucs4', 'Py_UCS4'),
]

PYX = '''
cdef enum Color:
    RED = 0
    GREEN = 1
'''
for key, ctype in TYPES:
    PYX += '''
def arg_{key}({ctype} x):
    return <long long>x
def assign_{key}(x):
    cdef {ctype} v = x
    return <long long>v
'''.format(key=key, ctype=ctype)
PYX += '''
def arg_enum(Color c):
    return <long long>c
def mv_item(unsigned char[:] mv, x):
    mv[0] = x
    return mv[0]
def carray(l):
    cdef int[2] a = l
    return a
'''


def build(name, src, workdir, extra=()):
    from Cython.Compiler.Main import compile as cycompile, CompilationOptions, default_options
    pyx = os.path.join(workdir, name + '.pyx')
    with open(pyx, 'w') as f:
        f.write(src)
    res = cycompile(pyx, CompilationOptions(default_options, language_level=3))
    if res.num_errors:
        raise RuntimeError('cython compilation failed')
    so = os.path.join(workdir, name + sysconfig.get_config_var('EXT_SUFFIX'))
    subprocess.check_call(['gcc', '-shared', '-fPIC', '-O1', '-w', '-fno-strict-overflow', *extra,
                           '-I' + sysconfig.get_paths()['include'], res.c_file, '-o', so])
    spec = importlib.util.spec_from_file_location(name, so)
    mod = importlib.util.module_from_spec(spec)
    spec.loader.exec_module(mod)
    return mod, res.c_file


class Idx:
    """An integer object in the sense of the Python data model (PEP 357)."""
    def __init__(self, v):
        self.v = v
    def __index__(self):
        return self.v


def call(f, *args):
    try:
        return f(*args)
    except Exception as e:
        return type(e).__name__


def main():
    workdir = tempfile.mkdtemp(prefix='probe_P5_2_')
    bad = []
    try:
        m, c_file = build('probe_p5_2_mod', PYX, workdir)
        with open(c_file) as f:
            c_src = f.read()
        assert '__Pyx_PyLong_As_int(' in c_src and '__Pyx_PyNumber_Long' in c_src, "CIntFromPy helper not used"

        # What CPython itself does when it converts this object to a C integer:
        ref = {
            'operator.index': operator.index(Idx(5)),
            "struct.pack('<i')": struct.unpack('<i', struct.pack('<i', Idx(5)))[0],
            "array('i')[0] = o": (lambda a: (a.__setitem__(0, Idx(5)), a[0])[1])(array.array('i', [0])),
            'ctypes.c_int(o)': ctypes.c_int(Idx(5)).value,
            'range(o)': len(range(Idx(5))),
            'int(o)': int(Idx(5)),
            'chr(o)': ord(chr(Idx(5))),
            'bytes([o])': bytes([Idx(5)])[0],
        }
        print("CPython conversions of Idx(5):", ref)
        assert set(ref.values()) == {5}

        print("\nCython, default build (expected 5 everywhere):")
        for key, ctype in TYPES:
            for kind in ('arg', 'assign'):
                got = call(getattr(m, '%s_%s' % (kind, key)), Idx(5))
                flag = '' if got == 5 else '   <-- DIFFERS'
                print("  %-7s %-20s -> %r%s" % (kind, ctype, got, flag))
                if got != 5:
                    bad.append((kind, ctype, got))
        for label, f, args, exp in (
                ('enum argument', m.arg_enum, (Idx(1),), 1),
                ('unsigned char[:] item assignment', m.mv_item, (bytearray(1), Idx(5)), 5),
                ('int[2] from list', m.carray, ([Idx(5), 6],), [5, 6])):
            got = call(f, *args)
            flag = '' if got == exp else '   <-- DIFFERS'
            print("  %-34s -> %r%s" % (label, got, flag))
            if got != exp:
                bad.append((label, got))
        # for contrast: a non-integer that is silently accepted
        print("  (contrast) arg int, 5.9                -> %r" % (call(m.arg_int, 5.9),))

        # Same generated C file, other branch of __Pyx_PyNumber_Long():
        m2, _ = build('probe_p5_2_noslots', PYX, workdir, extra=('-DCYTHON_USE_TYPE_SLOTS=0',))
        got2 = [call(getattr(m2, 'arg_%s' % key), Idx(5)) for key, _ in TYPES]
        print("\nSame module compiled with -DCYTHON_USE_TYPE_SLOTS=0:", got2)
    finally:
        shutil.rmtree(workdir, ignore_errors=True)

    if bad:
        print("\nDEFECT PRESENT: %d conversions of an __index__ object raised TypeError instead of returning its value" % len(bad))
        return 1
    print("\nno divergence found")
    return 0


if __name__ == '__main__':
    sys.exit(main())
