#!/usr/bin/env python
"""
probe_P5_5 -- C05 (enums, C++ mode): the declared underlying type of a scoped enum that
is DEFINED in Cython code is not emitted into the C++ source.

    cdef enum class Big(uint64_t):
        zero = 0
        one = 1

generates   enum class __pyx_t_..._Big { zero = 0, one = 1 };    // underlying type: int

while Cython's type system (CppScopedEnumType.underlying_type) believes the enum is 64 bit
wide.  Python -> C conversion therefore range-checks against uint64_t / int64_t
('(Big)__Pyx_PyLong_As_uint64_t(o)'), and the following C++ cast to the 32 bit enum silently
drops the upper bits.  Values that fit the declared type neither round-trip nor raise:

    def f(Big e): return <uint64_t>e
    f(2**32)      -> 0                        (expected 4294967296)
    f(2**63 - 1)  -> 18446744073709551615     (expected 9223372036854775807)

Responsible: ModuleNode.generate_enum_definition() / sue_header_footer()
(Cython/Compiler/ModuleNode.py) -- emits 'enum class NAME {' without ': underlying_type';
PyrexTypes.CppScopedEnumType.create_from_py_utility_code() then trusts underlying_type.

Run:  /venv/bin/python probe_P5_5.py      (from the worktree root; needs g++)
Exit status 1 if the defect is present, 0 otherwise.
"""
import os, sys, subprocess, sysconfig, tempfile, shutil, importlib.util, re

ROOT = os.path.dirname(os.path.abspath(__file__))
sys.path.insert(0, ROOT)

PYX = r'''
# distutils: language = c++
from libc.stdint cimport int64_t, uint64_t, uint8_t

cdef enum class Big(uint64_t):
    zero = 0
    one = 1

cpdef enum class Signed(int64_t):
    minus = -1
    plus = 1

cdef enum class Tiny(uint8_t):
    t0 = 0
    t1 = 1

def sizes():
    return sizeof(Big), sizeof(Signed), sizeof(Tiny)

def big_value(Big e):
    return <uint64_t>e
def signed_value(Signed e):
    return <int64_t>e
def signed_object(Signed e):
    return e
def tiny_value(Tiny e):
    return <uint64_t>e
'''


def build(name, src, workdir):
    from Cython.Compiler.Main import compile as cycompile, CompilationOptions, default_options
    pyx = os.path.join(workdir, name + '.pyx')
    with open(pyx, 'w') as f:
        f.write(src)
    res = cycompile(pyx, CompilationOptions(default_options, language_level=3, cplus=True))
    if res.num_errors:
        raise RuntimeError('cython compilation failed')
    so = os.path.join(workdir, name + sysconfig.get_config_var('EXT_SUFFIX'))
    subprocess.check_call(['g++', '-std=c++17', '-shared', '-fPIC', '-O1', '-w', '-fno-strict-overflow',
                           '-I' + sysconfig.get_paths()['include'], res.c_file, '-o', so])
    spec = importlib.util.spec_from_file_location(name, so)
    mod = importlib.util.module_from_spec(spec)
    spec.loader.exec_module(mod)
    return mod, res.c_file


def call(f, *args):
    try:
        return f(*args)
    except Exception as e:
        return type(e).__name__


def main():
    workdir = tempfile.mkdtemp(prefix='probe_P5_5_')
    bad = []
    try:
        m, c_file = build('probe_p5_5_mod', PYX, workdir)
        with open(c_file) as f:
            decls = re.findall(r'^enum class [^\n]*$', f.read(), re.M)
        print("generated declarations:")
        for d in decls:
            print("   ", d)
        sizes = m.sizes()
        print("sizeof(Big), sizeof(Signed), sizeof(Tiny) = %r   (declared: 8, 8, 1)" % (sizes,))
        if sizes != (8, 8, 1):
            bad.append(('sizeof', (8, 8, 1), sizes))

        def check(label, f, v, lo, hi):
            exp = v if lo <= v <= hi else 'OverflowError'
            got = call(f, v)
            flag = '' if got == exp else '   <-- DIFFERS'
            print("  %-13s(%-22d) expected %-22s got %s%s" % (label, v, exp, got, flag))
            if got != exp:
                bad.append((label, v, exp, got))

        for v in (0, 1, 2**31 - 1, 2**31, 2**32 - 1, 2**32, 2**32 + 1, 2**40, 2**63 - 1, 2**63, 2**64 - 1, 2**64, -1):
            check('big_value', m.big_value, v, 0, 2**64 - 1)
        for v in (-1, 1, 2**31 - 1, 2**31, -2**31, -2**31 - 1, 2**32, 2**32 + 1, 2**63 - 1, -2**63, 2**63):
            check('signed_value', m.signed_value, v, -2**63, 2**63 - 1)
        for v in (0, 1, 255, 256, -1):
            check('tiny_value', m.tiny_value, v, 0, 255)
        # a value that is not a member must not come back as a member
        got = call(m.signed_object, 2**32 + 1)
        print("  signed_object(2**32 + 1) -> %r   (CPython enum: ValueError, 4294967297 is not a valid Signed)" % (got,))
        if got != 'ValueError':
            bad.append(('signed_object', 2**32 + 1, 'ValueError', got))
    finally:
        shutil.rmtree(workdir, ignore_errors=True)

    if bad:
        print("\nDEFECT PRESENT: %d differing cases" % len(bad))
        return 1
    print("\nno divergence found")
    return 0


if __name__ == '__main__':
    sys.exit(main())
