#!/usr/bin/env python
"""
probe_P1_1 -- C13: method calls on a builtin-typed receiver that holds None.

Shape:      def f(list L, x): return L.count(x)        (also index/copy/remove,
            tuple.count/index, set.update/union, dict.popitem/update, str.upper, bytes.upper ...)
Input:      L = None  (allowed for builtin-typed arguments / cdef variables)
CPython:    AttributeError: 'NoneType' object has no attribute 'count'
Cython:     first call in the process: TypeError (descriptor ... doesn't apply to 'NoneType')
            every later call (method cache initialised): the raw C implementation of the method
            is run on the None object -> bogus results (0, [], '', ValueError, KeyError ...)
            or a segmentation fault (set.update(None, [1])).

Every function is exercised in its own child process:  call with a valid receiver (this is
what fills the per-module unbound-method cache), then call with None.

Run:  /venv/bin/python probe_P1_1.py      (from the worktree root)
Exit: 1 if the defect is present, 0 otherwise.
"""
import os, sys, subprocess, tempfile, shutil, importlib.util, sysconfig, json

ROOT = os.path.dirname(os.path.abspath(__file__))

PYX = r'''
def l_count(list L, x): return L.count(x)
def l_index(list L, x): return L.index(x)
def l_copy(list L): return L.copy()
def l_remove(list L, x):
    L.remove(x)
    return L
def t_count(tuple t, x): return t.count(x)
def t_index(tuple t, x): return t.index(x)
def s_update(set s, x):
    s.update(x)
    return s
def s_union(set s, x): return s.union(x)
def d_popitem(dict d): return d.popitem()
def d_update(dict d, x):
    d.update(x)
    return d
def u_upper(str s): return s.upper()
def b_upper(bytes s): return s.upper()
'''

PY = r'''
def l_count(L, x): return L.count(x)
def l_index(L, x): return L.index(x)
def l_copy(L): return L.copy()
def l_remove(L, x):
    L.remove(x)
    return L
def t_count(t, x): return t.count(x)
def t_index(t, x): return t.index(x)
def s_update(s, x):
    s.update(x)
    return s
def s_union(s, x): return s.union(x)
def d_popitem(d): return d.popitem()
def d_update(d, x):
    d.update(x)
    return d
def u_upper(s): return s.upper()
def b_upper(s): return s.upper()
'''

# (function, [argument tuples as source text, evaluated freshly for each run])
CASES = [
    ('l_count',   ['([1, 1], 1)', '(None, 1)', '(None, 1)']),
    ('l_index',   ['([1, 1], 1)', '(None, 1)']),
    ('l_copy',    ['([1],)', '(None,)']),
    ('l_remove',  ['([1, 2], 1)', '(None, 1)']),
    ('t_count',   ['((1, 1), 1)', '(None, 1)']),
    ('t_index',   ['((1, 1), 1)', '(None, 1)']),
    ('s_union',   ['({1}, [2])', '(None, [2])']),
    ('d_popitem', ['({1: 2},)', '(None,)']),
    ('d_update',  ['({}, {1: 2})', '(None, {1: 2})']),
    ('u_upper',   ['("a",)', '(None,)']),
    ('b_upper',   ['(b"a",)', '(None,)']),
    ('l_count',   ['(None, 1)']),                      # cold cache: TypeError instead of AttributeError
    ('s_update',  ['({1}, [2])', '(None, [1, 2])', '(None, list(range(1000)))']),   # writes into the None object; crashes
]


def build(tmp):
    sys.path.insert(0, ROOT)
    os.chdir(ROOT)
    from Cython.Compiler.Main import compile as cy_compile, CompilationOptions
    pyx = os.path.join(tmp, 'p1_1.pyx')
    with open(pyx, 'w') as f:
        f.write(PYX)
    res = cy_compile(pyx, CompilationOptions(language_level=3))
    if res.num_errors:
        raise SystemExit('cython compilation failed')
    so = os.path.join(tmp, 'p1_1.so')
    cc = shutil.which('gcc') or shutil.which('clang') or 'cc'
    subprocess.check_call([cc, '-O1', '-DNDEBUG', '-w', '-shared', '-fPIC',
                           '-I' + sysconfig.get_paths()['include'],
                           os.path.join(tmp, 'p1_1.c'), '-o', so])
    return so


def outcome(f, args):
    try:
        return ['ok', repr(f(*args))]
    except BaseException as e:
        return ['exc', type(e).__name__]


def child(so, idx):
    spec = importlib.util.spec_from_file_location('p1_1', so)
    m = importlib.util.module_from_spec(spec)
    spec.loader.exec_module(m)
    fname, calls = CASES[idx]
    for c in calls:
        print(json.dumps(outcome(getattr(m, fname), eval(c))), flush=True)


def main():
    if len(sys.argv) > 1 and sys.argv[1] == '--child':
        return child(sys.argv[2], int(sys.argv[3]))
    tmp = tempfile.mkdtemp(prefix='probe_P1_1_')
    bad = 0
    try:
        so = build(tmp)
        ns = {}
        exec(PY, ns)
        for idx, (fname, calls) in enumerate(CASES):
            p = subprocess.run([sys.executable, os.path.abspath(__file__), '--child', so, str(idx)],
                               stdout=subprocess.PIPE, stderr=subprocess.DEVNULL, timeout=120)
            got = [json.loads(l) for l in p.stdout.decode().splitlines() if l.strip()]
            for i, c in enumerate(calls):
                exp = outcome(ns[fname], eval(c))
                if i < len(got):
                    act = got[i]
                else:
                    act = ['CRASH', 'signal %d' % -p.returncode if p.returncode < 0 else 'exit %d' % p.returncode]
                flag = '' if act == exp else '   <-- DIFFERS'
                if flag:
                    bad += 1
                print('%-10s args=%-16s CPython=%-28s Cython=%-32s%s' % (fname, c, tuple(exp), tuple(act), flag))
                if act[0] == 'CRASH':
                    break
    finally:
        shutil.rmtree(tmp, ignore_errors=True)
    print('\n%d differing calls' % bad)
    print('DEFECT PRESENT' if bad else 'defect not observed')
    return 1 if bad else 0


if __name__ == '__main__':
    sys.exit(main())
