#!/usr/bin/env python
"""
probe_P1_3 -- C13: chr(), bytearray.append() and list.insert() replaced by C helpers whose C
parameter is narrower / stricter / laxer than the Python-level argument.

(a) C-typed argument silently truncated to the helper's parameter type (value returned / container
    mutated where CPython raises):
      def f(long long x): return chr(x)                   f(2**32 + 65)  -> 'A'      (CPython: OverflowError)
                                                          f(-2**63)      -> '\x00'   (CPython: OverflowError)
      def f(bytearray b, long long v): b.append(v)        v = 2**32 + 65 -> b'...A'  (CPython: ValueError)
      def f(bytearray b, Py_ssize_t v): b.append(v)       v = -2**32 + 65 -> b'...A' (CPython: ValueError)
      def f(list L, unsigned long i): L.insert(i, 'X')    i = 2**64 - 1  -> inserted at index -1
                                                                              (CPython: OverflowError)
    (list.pop(<unsigned long> i) in contrast is handled correctly by __Pyx_fits_Py_ssize_t.)
(b) Python-object argument converted with the C-int conversion (nb_int, not nb_index):
      def f(x): return chr(x)      f(1.5) -> '\x01'            (CPython: TypeError)
                                   f(obj with __index__ -> 65)  -> TypeError   (CPython: 'A')
(c) def f(bytearray b, x): b.append(x)   x = 2**70 / -2**70 / 2**63 -> OverflowError  (CPython: ValueError)
(d) b.append('a') / b.append(b'a') with a literal: appends 97  (CPython: TypeError)

Run:  /venv/bin/python probe_P1_3.py      (from the worktree root)
Exit: 1 if the defect is present, 0 otherwise.
"""
import os, sys, subprocess, tempfile, shutil, importlib.util, sysconfig, json

ROOT = os.path.dirname(os.path.abspath(__file__))


class Idx:
    def __init__(self, v): self.v = v
    def __index__(self): return self.v
    def __repr__(self): return 'Idx(%r)' % self.v


PYX = r'''
def chr_ll(long long x): return chr(x)
def chr_obj(x): return chr(x)
def ba_append_ll(bytearray b, long long v):
    b.append(v)
    return b
def ba_append_ssz(bytearray b, Py_ssize_t v):
    b.append(v)
    return b
def ba_append_ul(bytearray b, unsigned long v):
    b.append(v)
    return b
def ba_append_obj(bytearray b, v):
    b.append(v)
    return b
def ba_append_str_lit(bytearray b):
    b.append('a')
    return b
def ba_append_bytes_lit(bytearray b):
    b.append(b'a')
    return b
def l_insert_ul(list L, unsigned long i):
    L.insert(i, 'X')
    return L
def l_pop_ul(list L, unsigned long i):
    return L.pop(i)
'''

PY = r'''
def chr_ll(x): return chr(x)
def chr_obj(x): return chr(x)
def ba_append_ll(b, v):
    b.append(v)
    return b
def ba_append_ssz(b, v):
    b.append(v)
    return b
def ba_append_ul(b, v):
    b.append(v)
    return b
def ba_append_obj(b, v):
    b.append(v)
    return b
def ba_append_str_lit(b):
    b.append('a')
    return b
def ba_append_bytes_lit(b):
    b.append(b'a')
    return b
def l_insert_ul(L, i):
    L.insert(i, 'X')
    return L
def l_pop_ul(L, i):
    return L.pop(i)
'''

CASES = [
    ('chr_ll', ['(65,)', '(0x10ffff,)', '(0x110000,)', '(-1,)', '(2**31,)', '(2**32 + 65,)', '(-2**32 + 65,)',
                '(2**63 - 1,)', '(-2**63,)']),
    ('chr_obj', ['(65,)', '(2**32 + 65,)', '(1.5,)', '(-0.0,)', '(Idx(65),)', '("A",)', '(None,)']),
    ('ba_append_ll', ['(bytearray(b"x"), 65)', '(bytearray(b"x"), 256)', '(bytearray(b"x"), -1)',
                      '(bytearray(b"x"), 2**32 + 65)', '(bytearray(b"x"), 2**32)', '(bytearray(b"x"), -2**63)']),
    ('ba_append_ssz', ['(bytearray(b"x"), 2**32 + 65)', '(bytearray(b"x"), -2**32 + 65)']),
    ('ba_append_ul', ['(bytearray(b"x"), 2**32 + 65)', '(bytearray(b"x"), 2**63)']),
    ('ba_append_obj', ['(bytearray(b"x"), 65)', '(bytearray(b"x"), 256)', '(bytearray(b"x"), 2**62)',
                       '(bytearray(b"x"), 2**63)', '(bytearray(b"x"), 2**70)', '(bytearray(b"x"), -2**70)',
                       '(bytearray(b"x"), Idx(66))', '(bytearray(b"x"), Idx(2**70))', '(bytearray(b"x"), 1.0)']),
    ('ba_append_str_lit', ['(bytearray(b"x"),)']),
    ('ba_append_bytes_lit', ['(bytearray(b"x"),)']),
    ('l_insert_ul', ['([1, 2, 3], 1)', '([1, 2, 3], 2**63 - 1)', '([1, 2, 3], 2**63)', '([1, 2, 3], 2**64 - 1)']),
    ('l_pop_ul', ['([1, 2, 3], 1)', '([1, 2, 3], 2**63)', '([1, 2, 3], 2**64 - 1)']),
]


def build(tmp):
    sys.path.insert(0, ROOT)
    os.chdir(ROOT)
    from Cython.Compiler.Main import compile as cy_compile, CompilationOptions
    pyx = os.path.join(tmp, 'p1_3.pyx')
    with open(pyx, 'w') as f:
        f.write(PYX)
    res = cy_compile(pyx, CompilationOptions(language_level=3))
    if res.num_errors:
        raise SystemExit('cython compilation failed')
    so = os.path.join(tmp, 'p1_3.so')
    cc = shutil.which('gcc') or shutil.which('clang') or 'cc'
    subprocess.check_call([cc, '-O1', '-DNDEBUG', '-w', '-shared', '-fPIC',
                           '-I' + sysconfig.get_paths()['include'],
                           os.path.join(tmp, 'p1_3.c'), '-o', so])
    return so


def outcome(f, args):
    try:
        return ['ok', repr(f(*args))]
    except BaseException as e:
        return ['exc', type(e).__name__]


def child(so, idx):
    spec = importlib.util.spec_from_file_location('p1_3', so)
    m = importlib.util.module_from_spec(spec)
    spec.loader.exec_module(m)
    fname, calls = CASES[idx]
    for c in calls:
        print(json.dumps(outcome(getattr(m, fname), eval(c))), flush=True)


def main():
    if len(sys.argv) > 1 and sys.argv[1] == '--child':
        return child(sys.argv[2], int(sys.argv[3]))
    tmp = tempfile.mkdtemp(prefix='probe_P1_3_')
    bad = 0
    try:
        so = build(tmp)
        ns = {'Idx': Idx}
        exec(PY, ns)
        for idx, (fname, calls) in enumerate(CASES):
            p = subprocess.run([sys.executable, os.path.abspath(__file__), '--child', so, str(idx)],
                               stdout=subprocess.PIPE, stderr=subprocess.DEVNULL, timeout=120)
            got = [json.loads(l) for l in p.stdout.decode().splitlines() if l.strip()]
            for i, c in enumerate(calls):
                exp = outcome(ns[fname], eval(c))
                if i < len(got):
                    act = got[i]
                else:
                    act = ['CRASH', 'signal %d' % -p.returncode if p.returncode < 0 else 'exit %d' % p.returncode]
                flag = '' if act == exp else '   <-- DIFFERS'
                if flag:
                    bad += 1
                print('%-16s args=%-38s CPython=%-26s Cython=%-30s%s' % (fname, c, tuple(exp), tuple(act), flag))
                if act[0] == 'CRASH':
                    break
    finally:
        shutil.rmtree(tmp, ignore_errors=True)
    print('\n%d differing calls' % bad)
    print('DEFECT PRESENT' if bad else 'defect not observed')
    return 1 if bad else 0


if __name__ == '__main__':
    sys.exit(main())
