#!/usr/bin/env python
"""
probe_P1_2 -- C13: unbound-method form  T.method(obj, ...)  with an UNTYPED first argument.

Shape:      def f(o): return list.pop(o)          def f(o, k): return dict.pop(o, k)
            def f(o, v): bytearray.append(o, v)   def f(o, k): return dict.get(o, k)   ...
Input:      o of a different type than T  (e.g. a dict for list.pop, a list for dict.pop)
CPython:    TypeError: descriptor 'pop' for 'list' objects doesn't apply to a 'dict' object
Cython:     the optimised helper for T is run on the foreign object without any type test:
            list.pop({1, 2, 3, 4})      -> segmentation fault (PyListObject fields read from a set object:
                                           ob_size := set.fill, allocated := set.mask, ob_item := set.used;
                                           the set's fill field is decremented and ob_item[3] is read)
            list.pop({1: 2}, 1)         -> returns 2 and empties the dict (falls back to o.pop(1))
            list.pop(bytearray(b'ab'),1)-> returns 98
            dict.pop([2, 1], 1)         -> segmentation fault / assertion
            bytearray.append({1: 2}, 1) -> segmentation fault / memory corruption
            bytearray.extend({1: 2}, b'xy') -> segmentation fault / memory corruption
            dict.get([1], 1), dict.setdefault([1], 1), list.sort({1: 2}) -> SystemError (bad internal call)
            None as first argument      -> AttributeError instead of TypeError (list.pop, bytearray.append)

Each case runs in its own child process.

Run:  /venv/bin/python probe_P1_2.py      (from the worktree root)
Exit: 1 if the defect is present, 0 otherwise.
"""
import os, sys, subprocess, tempfile, shutil, importlib.util, sysconfig, json

ROOT = os.path.dirname(os.path.abspath(__file__))

PYX = PY = r'''
def u_list_pop(o): return list.pop(o)
def u_list_pop1(o, i): return list.pop(o, i), o
def u_list_sort(o):
    list.sort(o)
    return o
def u_dict_pop(o, k): return dict.pop(o, k)
def u_dict_pop_default(o, k):
    dict.pop(o, k, None)
    return o
def u_dict_get(o, k): return dict.get(o, k)
def u_dict_setdefault(o, k): return dict.setdefault(o, k)
def u_ba_append(o, v):
    bytearray.append(o, v)
    return o
def u_ba_extend(o, v):
    bytearray.extend(o, v)
    return o
'''

# (function, [argument tuples as source text]); the first call of every case is a valid one
CASES = [
    ('u_list_pop1',       ['([1, 2, 3], 1)', '({1: 2}, 1)']),
    ('u_list_pop1',       ['(bytearray(b"ab"), 1)', '("ab", 1)', '(None, 1)']),
    ('u_dict_get',        ['({1: 2}, 1)', '([2, 1], 1)', '((1, 2), 1)', '(None, 1)']),
    ('u_dict_setdefault', ['({1: 2}, 1)', '([2, 1], 1)', '({1, 2}, 1)']),
    ('u_list_sort',       ['([2, 1],)', '({1: 2},)', '((2, 1),)']),
    ('u_list_pop',        ['([1, 2, 3],)', '(None,)', '({1: 2},)']),
    ('u_list_pop',        ['({1, 2, 3, 4},)']),    # set: fill(4) > mask(7) >> 1  -> list "fast path" taken on a set
    ('u_dict_pop',        ['({1: 2}, 1)', '([2, 1], 1)']),
    ('u_dict_pop_default', ['({1: 2}, 1)', '([2, 1], 1)']),
    ('u_ba_append',       ['(bytearray(b"a"), 66)', '(None, 66)', '({1: 2}, 66)']),
    ('u_ba_append',       ['([1, 2], 66)']),
    ('u_ba_extend',       ['(bytearray(b"a"), b"xy")', '({1: 2}, b"xy")']),
    ('u_ba_extend',       ['([1, 2], b"xy" * 1000)']),
]


def build(tmp):
    sys.path.insert(0, ROOT)
    os.chdir(ROOT)
    from Cython.Compiler.Main import compile as cy_compile, CompilationOptions
    pyx = os.path.join(tmp, 'p1_2.pyx')
    with open(pyx, 'w') as f:
        f.write(PYX)
    res = cy_compile(pyx, CompilationOptions(language_level=3))
    if res.num_errors:
        raise SystemExit('cython compilation failed')
    so = os.path.join(tmp, 'p1_2.so')
    cc = shutil.which('gcc') or shutil.which('clang') or 'cc'
    subprocess.check_call([cc, '-O1', '-DNDEBUG', '-w', '-shared', '-fPIC',
                           '-I' + sysconfig.get_paths()['include'],
                           os.path.join(tmp, 'p1_2.c'), '-o', so])
    return so


def outcome(f, args):
    try:
        return ['ok', repr(f(*args))]
    except BaseException as e:
        return ['exc', type(e).__name__]


def child(so, idx):
    spec = importlib.util.spec_from_file_location('p1_2', so)
    m = importlib.util.module_from_spec(spec)
    spec.loader.exec_module(m)
    fname, calls = CASES[idx]
    for c in calls:
        print(json.dumps(outcome(getattr(m, fname), eval(c))), flush=True)


def main():
    if len(sys.argv) > 1 and sys.argv[1] == '--child':
        return child(sys.argv[2], int(sys.argv[3]))
    tmp = tempfile.mkdtemp(prefix='probe_P1_2_')
    bad = 0
    try:
        so = build(tmp)
        ns = {}
        exec(PY, ns)
        for idx, (fname, calls) in enumerate(CASES):
            p = subprocess.run([sys.executable, os.path.abspath(__file__), '--child', so, str(idx)],
                               stdout=subprocess.PIPE, stderr=subprocess.DEVNULL, timeout=120)
            got = [json.loads(l) for l in p.stdout.decode().splitlines() if l.strip()]
            for i, c in enumerate(calls):
                exp = outcome(ns[fname], eval(c))
                if i < len(got):
                    act = got[i]
                else:
                    act = ['CRASH', 'signal %d' % -p.returncode if p.returncode < 0 else 'exit %d' % p.returncode]
                flag = '' if act == exp else '   <-- DIFFERS'
                if flag:
                    bad += 1
                print('%-17s args=%-28s CPython=%-24s Cython=%-34s%s' % (fname, c, tuple(exp), tuple(act), flag))
                if act[0] == 'CRASH':
                    break
    finally:
        shutil.rmtree(tmp, ignore_errors=True)
    print('\n%d differing calls' % bad)
    print('DEFECT PRESENT' if bad else 'defect not observed')
    return 1 if bad else 0


if __name__ == '__main__':
    sys.exit(main())
