#!/usr/bin/env python
"""
probe_P1_4 -- C13: smaller semantic divergences of optimised builtins (no memory unsafety).

(a) ord(s) for a str of length != 1:   Cython ValueError ("only single character unicode strings
    can be converted to Py_UCS4"),  CPython TypeError.   [Builtins.c::__Pyx_PyObject_Ord ->
    TypeConversion.c::__Pyx_PyUnicode_AsPy_UCS4]
(b) isinstance(x, <builtin type>) is replaced by PyXxx_Check(x) and ignores x.__class__:
    objects that present a builtin type through __class__ (unittest.mock.Mock(spec=list), proxies)
    give False instead of True.   [Optimize.py::_handle_simple_function_isinstance]
(c) the results of repr(x) / str(x) / format(x) / f"{x}" are typed as *exact* str; when __repr__ /
    __str__ / __format__ return an instance of a str subclass (which CPython passes through
    unchanged), the subsequent len(r), r[0], r.upper(), bool(r), r + "z" bypass the overrides.
    [Builtin.py: builtin_return_type='str' + the exact-type fast paths]
(d) int(<C double>) whose result goes to a C variable is replaced by a C cast / trunc():
    cdef long r = int(x)    x = nan/inf  -> LONG_MIN, no exception   (CPython ValueError/OverflowError)
    cdef double r = int(x)  x = nan/inf  -> nan/inf, no exception
    [Optimize.py::_optimise_numeric_cast_call]

Run:  /venv/bin/python probe_P1_4.py      (from the worktree root)
Exit: 1 if the defect is present, 0 otherwise.
"""
import os, sys, subprocess, tempfile, shutil, importlib.util, sysconfig, json
from unittest import mock

ROOT = os.path.dirname(os.path.abspath(__file__))
nan = float('nan'); inf = float('inf')


class FakeInt:
    __class__ = int
    def __repr__(self): return 'FakeInt()'


class S(str):
    def __len__(self): return 42
    def upper(self): return 'OVERRIDDEN'
    def __getitem__(self, i): return 'gi'
    def __add__(self, o): return 'add'
    def __bool__(self): return False


class X:
    def __repr__(self): return S('abc')
    def __str__(self): return S('abc')
    def __format__(self, spec): return S('abc')


def mock_list():
    return mock.Mock(spec=list)


PYX = r'''
def ord_obj(x): return ord(x)
def ord_str(str x): return ord(x)
def isinst_int(x): return isinstance(x, int)
def isinst_seq(x): return isinstance(x, (list, tuple))
def repr_use(x):
    r = repr(x)
    return len(r), r.upper(), r[0], bool(r), r + "z"
def str_use(x):
    r = str(x)
    return len(r), r.upper(), r[0], bool(r), r + "z"
def format_use(x):
    r = format(x)
    return len(r), r.upper()
def fstring_use(x):
    r = f"{x}"
    return len(r), r.upper()
def int_to_long(double x):
    cdef long r = int(x)
    return r
def int_to_double(double x):
    cdef double r = int(x)
    return r
'''

PY = r'''
def ord_obj(x): return ord(x)
def ord_str(x): return ord(x)
def isinst_int(x): return isinstance(x, int)
def isinst_seq(x): return isinstance(x, (list, tuple))
def repr_use(x):
    r = repr(x)
    return len(r), r.upper(), r[0], bool(r), r + "z"
def str_use(x):
    r = str(x)
    return len(r), r.upper(), r[0], bool(r), r + "z"
def format_use(x):
    r = format(x)
    return len(r), r.upper()
def fstring_use(x):
    r = f"{x}"
    return len(r), r.upper()
def int_to_long(x):
    r = int(x)
    return r
def int_to_double(x):
    r = float(int(x))
    return r
'''

CASES = [
    ('ord_obj', ['("a",)', '("ab",)', '("",)', '(b"ab",)', '(5,)']),
    ('ord_str', ['("a",)', '("ab",)', '("",)']),
    ('isinst_int', ['(1,)', '("a",)', '(FakeInt(),)']),
    ('isinst_seq', ['([],)', '({},)', '(mock_list(),)']),
    ('repr_use', ['("abc",)', '(X(),)']),
    ('str_use', ['("abc",)', '(X(),)']),
    ('format_use', ['(X(),)']),
    ('fstring_use', ['(X(),)']),
    ('int_to_long', ['(2.5,)', '(-2.5,)', '(nan,)', '(inf,)', '(-inf,)']),
    ('int_to_double', ['(2.5,)', '(nan,)', '(inf,)']),
]


def build(tmp):
    sys.path.insert(0, ROOT)
    os.chdir(ROOT)
    from Cython.Compiler.Main import compile as cy_compile, CompilationOptions
    pyx = os.path.join(tmp, 'p1_4.pyx')
    with open(pyx, 'w') as f:
        f.write(PYX)
    res = cy_compile(pyx, CompilationOptions(language_level=3))
    if res.num_errors:
        raise SystemExit('cython compilation failed')
    so = os.path.join(tmp, 'p1_4.so')
    cc = shutil.which('gcc') or shutil.which('clang') or 'cc'
    subprocess.check_call([cc, '-O1', '-DNDEBUG', '-w', '-shared', '-fPIC',
                           '-I' + sysconfig.get_paths()['include'],
                           os.path.join(tmp, 'p1_4.c'), '-o', so])
    return so


def outcome(f, args):
    try:
        return ['ok', repr(f(*args))]
    except BaseException as e:
        return ['exc', type(e).__name__]


def child(so, idx):
    spec = importlib.util.spec_from_file_location('p1_4', so)
    m = importlib.util.module_from_spec(spec)
    spec.loader.exec_module(m)
    fname, calls = CASES[idx]
    for c in calls:
        print(json.dumps(outcome(getattr(m, fname), eval(c))), flush=True)


def main():
    if len(sys.argv) > 1 and sys.argv[1] == '--child':
        return child(sys.argv[2], int(sys.argv[3]))
    tmp = tempfile.mkdtemp(prefix='probe_P1_4_')
    bad = 0
    try:
        so = build(tmp)
        ns = dict(globals())
        exec(PY, ns)
        for idx, (fname, calls) in enumerate(CASES):
            p = subprocess.run([sys.executable, os.path.abspath(__file__), '--child', so, str(idx)],
                               stdout=subprocess.PIPE, stderr=subprocess.DEVNULL, timeout=120)
            got = [json.loads(l) for l in p.stdout.decode().splitlines() if l.strip()]
            for i, c in enumerate(calls):
                exp = outcome(ns[fname], eval(c))
                if i < len(got):
                    act = got[i]
                else:
                    act = ['CRASH', 'signal %d' % -p.returncode if p.returncode < 0 else 'exit %d' % p.returncode]
                flag = '' if act == exp else '   <-- DIFFERS'
                if flag:
                    bad += 1
                print('%-12s args=%-22s CPython=%-44s Cython=%-40s%s' % (fname, c, tuple(exp), tuple(act), flag))
                if act[0] == 'CRASH':
                    break
    finally:
        shutil.rmtree(tmp, ignore_errors=True)
    print('\n%d differing calls' % bad)
    print('DEFECT PRESENT' if bad else 'defect not observed')
    return 1 if bad else 0


if __name__ == '__main__':
    sys.exit(main())
