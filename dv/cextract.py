"""Mechanical extraction of C subjects from the working tree (re-done on every run).

template route : Cython's own loader (UtilityCode / TempitaUtilityCode, imported from /repo's pure
                 Python sources) instantiates a utility template; the text is appended to the real
                 module preamble (everything the working-tree compiler emits before the first
                 utility section of a module: Python.h include + ModuleSetupCode macros).
module route   : a catalogue .pyx is compiled with the working-tree compiler; functions are taken
                 out of the generated .c.
Both end in `clang -Xclang -ast-dump=json -Xclang -ast-dump-filter=<name> -fsyntax-only`.
What is dropped: comments, attributes, pragmas (clang does not put them in the AST / they are ignored
by the executor); preprocessor branches not selected by the stated -D configuration.
"""
import atexit
import os
import shutil
import subprocess
import sys
import tempfile

REPO = os.environ.get("DV_REPO", "/repo")
PY_INCLUDE = os.environ.get("DV_PY_INCLUDE", "/root/.pyenv/versions/3.12.1/include/python3.12")

_workdir = None


def workdir():
    global _workdir
    if _workdir is None or not os.path.isdir(_workdir):
        _workdir = tempfile.mkdtemp(prefix="dv-%d-" % os.getpid())
        atexit.register(shutil.rmtree, _workdir, True)
    return _workdir


def ensure_repo_on_path():
    """import Cython from the working tree's .py sources (python3-vt is 3.11: the cp312 .so files
    in /repo cannot be imported, so the pure sources are what runs)."""
    if REPO not in sys.path:
        sys.path.insert(0, REPO)
    import Cython
    assert os.path.realpath(os.path.dirname(os.path.dirname(Cython.__file__))) == os.path.realpath(REPO), Cython.__file__
    import Cython.Compiler.Code as Code
    assert Code.__file__.endswith(".py"), "compiled module shadows the source: %s" % Code.__file__


def compile_pyx(text, name="dvmod", directives=None, options=None, cplus=False):
    """compile with the working-tree compiler; returns the generated C text (raises on errors)."""
    ensure_repo_on_path()
    from Cython.Compiler.Main import compile as cy_compile, CompilationOptions
    from Cython.Compiler import Errors
    d = tempfile.mkdtemp(prefix="pyx-", dir=workdir())
    pyx = os.path.join(d, name + ".pyx")
    with open(pyx, "w") as f:
        f.write(text)
    kw = dict(language_level=3, compiler_directives=dict(directives or {}), cplus=cplus)
    kw.update(options or {})
    opts = CompilationOptions(**kw)
    old = sys.stderr
    import io
    buf = io.StringIO()
    sys.stderr = buf
    try:
        res = cy_compile(pyx, opts)
    finally:
        sys.stderr = old
    if res.num_errors or not res.c_file or not os.path.exists(res.c_file):
        raise CompileError("cython reported %s errors:\n%s" % (res.num_errors, buf.getvalue()))
    with open(res.c_file) as f:
        ctext = f.read()
    return ctext, res.c_file


class CompileError(Exception):
    pass


_preamble = None


def preamble():
    """real module preamble produced by the working-tree compiler for an empty module."""
    global _preamble
    if _preamble is None:
        ctext, _ = compile_pyx("pass\n", name="dvempty")
        marker = "/* #### Code section: filename_table"
        i = ctext.index(marker)
        _preamble = ctext[:i]
    return _preamble


def load_utility(name, file, context=None, specialize_type=None, extra=None):
    """instantiate a utility with Cython's loader; returns proto + impl text."""
    ensure_repo_on_path()
    from Cython.Compiler.Code import UtilityCode, TempitaUtilityCode
    if context is not None:
        u = TempitaUtilityCode.load(name, file, context=context)
    else:
        u = UtilityCode.load(name, file)
    if specialize_type is not None or extra:
        u = u.specialize(specialize_type, **(extra or {}))
    parts = []
    if u.proto:
        parts.append(u.format_code(u.proto) if hasattr(u, "format_code") else u.proto)
    if u.impl:
        parts.append(u.format_code(u.impl) if hasattr(u, "format_code") else u.impl)
    return "\n".join(parts) + "\n"


def template_tu(*parts):
    """real preamble + instantiated utility texts + the #endif that closes the preamble's Py_PYTHON_H guard."""
    return preamble() + "\n".join(parts) + "\n#endif /* Py_PYTHON_H */\n"


def write_tu(text, name="tu.c"):
    d = tempfile.mkdtemp(prefix="tu-", dir=workdir())
    p = os.path.join(d, name)
    with open(p, "w") as f:
        f.write(text)
    return p


def clang_ast(cfile, filt, defines=(), cplus=False):
    from .cfe import load_ast_objects
    cmd = ["clang", "-Xclang", "-ast-dump=json", "-Xclang", "-ast-dump-filter=" + filt, "-fsyntax-only", "-w",
           "-I" + PY_INCLUDE]
    for d in defines:
        cmd.append("-D" + d)
    cmd.append(cfile)
    p = subprocess.run(cmd, capture_output=True, text=True)
    if p.returncode != 0:
        raise CompileError("clang failed on %s:\n%s" % (cfile, p.stderr[-3000:]))
    return load_ast_objects(p.stdout)


def function_text(ctext, fname):
    """source text of the definition of fname in ctext (brace matching from the definition header)."""
    import re
    for m in re.finditer(r"^[^\n;{}#]*\b%s\s*\([^;{]*\)\s*\{" % re.escape(fname), ctext, re.M):
        i = m.end() - 1
        depth, j = 0, i
        while j < len(ctext):
            if ctext[j] == "{":
                depth += 1
            elif ctext[j] == "}":
                depth -= 1
                if depth == 0:
                    return ctext[m.start():j + 1]
            j += 1
    return None


def build_shared(cfile, out, defines=(), sanitize=False, extra=()):
    cc = ["clang"] if sanitize else ["cc"]
    cmd = cc + ["-O0", "-w", "-fPIC", "-I" + PY_INCLUDE]
    if sanitize:
        cmd += ["-fsanitize=undefined,address", "-fno-sanitize-recover=all"]
    for d in defines:
        cmd.append("-D" + d)
    cmd += list(extra) + [cfile, "-o", out, "-lm"]
    p = subprocess.run(cmd, capture_output=True, text=True)
    if p.returncode != 0:
        raise CompileError("cc failed: %s" % p.stderr[-3000:])
    return out
