"""Fragment units for C: one statement (block) inside a real function is the subject.

Used where a property is carried by a loop body / branch of a larger function (e.g. the back-reference
branch of the LZSS decompressor): the statement is located mechanically in clang's AST on every run
(`finder(function_node) -> statement node`), executed symbolically from a state in which the named
variables hold symbolic values described by the contract, and its effect is checked against `ensures`.
What extraction drops: everything of the function outside that statement (stated in the evidence).
"""
import time
import traceback
import z3

from . import cextract
from .cfe import CExec, State, CV, Ptr, parse_type, OutOfSubset, StaleContract
from .core import check_sat, UnitResult, sha
from .cunit import CUnit, Env, TInfo


class CFragmentUnit(CUnit):
    def __init__(self, uid, props, fname, tu, finder, variables, arrays=None, fragment_desc="", **kw):
        """variables: [(name, 'int-ctype')] scalars that are live at fragment entry (symbolic, full range);
        arrays: {pointer variable name: (elem ctype, length term builder(e) or int)}"""
        CUnit.__init__(self, uid, props, fname, tu, **kw)
        self.finder, self.variables, self.frag_arrays, self.fragment_desc = finder, variables, arrays or {}, fragment_desc

    def _run(self, res, timeout_s):
        text, route, path, nodes, ftext = self._prepare()
        self._tu_text = text
        ex = self.exec_cls(nodes, self.fname, contracts=self.callees, prefix=self.uid + "/", options=self.options)
        stmt = self.finder(ex.func)
        if stmt is None:
            raise StaleContract("fragment (%s) not found in %s" % (self.fragment_desc, self.fname))
        res.subject.update(function=self.fname, route=route, sha256_16=sha(ftext), fragment=self.fragment_desc,
                           dropped="everything of the function outside the fragment; comments, attributes, pragmas")
        st = State()
        e = Env()
        values = {}
        ids = ex.decl_ids()
        for nm, ctype in self.variables:
            ty = parse_type(ctype)
            t = z3.Int(nm)
            st.path.append(z3.And(t >= ty.min, t <= ty.max))
            if nm in ids:
                values[nm] = CV(ids[nm][1], t)       # a real variable of the function
            setattr(e, nm, t)                      # otherwise ghost: known to the contract only (e.g. a buffer extent)
        for nm, (ectype, _ln) in self.frag_arrays.items():
            ety = parse_type(ectype)
            ex.new_obj(st, nm, ety, None)
            k = z3.Int("k!" + nm)
            st.path.append(z3.ForAll([k], z3.And(z3.Select(st.mem[nm], k) >= ety.min, z3.Select(st.mem[nm], k) <= ety.max)))
            values[nm] = Ptr(ids[nm][1] if nm in ids else parse_type(ectype + " *"), nm, z3.IntVal(0))
        e.mem0 = dict(st.mem)
        # array extents may depend on the scalar variables
        for nm, (_ectype, ln) in self.frag_arrays.items():
            st.objs[nm].length = ln(e) if callable(ln) else z3.IntVal(ln)
        pre = [f(e) for _, f in self.requires]
        st.path.extend(pre)
        if check_sat(st.path) != z3.sat:
            res.cover_failures.append("precondition of %s is not satisfiable (or undecided)" % self.uid)
        else:
            res.covers += 1
        outs, ids = ex.run_fragment(st, stmt, values)
        feasible = 0
        for o in outs:
            s = o[1]
            e2 = Env(**e.__dict__)
            e2.exit = o[0]
            e2.mem = dict(s.mem)
            e2.result = o[2].t if (o[0] == "return" and isinstance(o[2], CV)) else None
            for nm, _c in self.variables:
                if nm in ids:
                    v = s.vars.get(ids[nm][0])
                    setattr(e2, nm + "_out", v.t if isinstance(v, CV) else None)
            for label, f in self.ensures:
                ex.oblige(s, "post", label, f(e2), None)
            if check_sat(s.path) == z3.sat:
                feasible += 1
        res.covers += feasible
        if feasible == 0:
            res.cover_failures.append("no feasible exit of the fragment")
        res.assumptions = sorted(ex.assumptions)
        self._finish(res, ex.obligations, e, timeout_s)

    def replay(self, model, ob=None):
        return {"confirmed": False, "note": "fragment unit: replay is done by the whole-function native check of the contract module"}

    def concrete_search(self, ob, regions=()):
        if getattr(self, "search", None):
            return self.search(0, ob.name)
        return {"confirmed": False, "note": "no concrete search for this fragment"}
