"""Python front end: symbolic execution of ONE function (or method) read from /repo's .py text with `ast`.

Semantics encoded (DESIGN.md 3.1): int = mathematical Int; // and % are floor operations with a
ZeroDivisionError obligation; & | ^ ~ << >> through idioms proved in contracts/idioms_py.py or a
64-bit bit-vector island; bool; None; tuples of statically known arity; strings of statically known
length as lists of code points (chr(), f"{x:c}", literals) with range obligations; heap objects
(lists, sets, dicts, class instances) as addresses into per-component z3 arrays, so aliasing is
real.  Anything else raises OutOfSubset (never a silent approximation).
"""
import ast
import z3

from .core import Obligation, OutOfSubset, StaleContract
from . import spec as S

IntSort = z3.IntSort()
ARR_II = z3.ArraySort(IntSort, IntSort)
ARR_IB = z3.ArraySort(IntSort, z3.BoolSort())

CY_RANGES = {"int": (-(1 << 31), (1 << 31) - 1), "uint": (0, (1 << 32) - 1), "long": (-(1 << 63), (1 << 63) - 1),
             "Py_ssize_t": (-(1 << 63), (1 << 63) - 1), "ulong": (0, (1 << 64) - 1), "short": (-(1 << 15), (1 << 15) - 1),
             "Py_UCS4": (0, (1 << 32) - 1), "uchar": (0, 255), "char": (-128, 127)}


# ------------------------------------------------------------------------------- values

class PV:
    kind = "?"


class PInt(PV):
    kind = "int"

    def __init__(self, t):
        self.t = t if z3.is_expr(t) else z3.IntVal(int(t))
        # constant folding: an operator applied to numerals only becomes a numeral (so that idioms keyed on
        # constant operands, e.g. x & ~1, see the constant)
        if z3.is_app(self.t) and self.t.num_args() > 0 and all(z3.is_int_value(c) for c in self.t.children()):
            self.t = z3.simplify(self.t)


class PBool(PV):
    kind = "bool"

    def __init__(self, b):
        self.b = b if z3.is_expr(b) else z3.BoolVal(bool(b))


class PNone(PV):
    kind = "none"


class PStr(PV):
    """string of statically known length: list of code-point terms; `text` if fully constant"""
    kind = "str"

    def __init__(self, codes, text=None):
        self.codes, self.text = list(codes), text


class PTuple(PV):
    kind = "tuple"

    def __init__(self, items):
        self.items = list(items)


class PRef(PV):
    """reference to a heap object; cls: list | strbuilder | set | dict | obj:<Class>"""
    kind = "ref"

    def __init__(self, cls, addr):
        self.cls, self.addr = cls, addr


class PAny(PV):
    """content of a heap cell whose static kind is decided by its use (int, or a reference)"""
    kind = "any"

    def __init__(self, t):
        self.t = t


class POpt(PV):
    """optional reference: is_none Bool + ref"""
    kind = "opt"

    def __init__(self, is_none, ref):
        self.is_none, self.ref = is_none, ref


class PSeq(PV):
    """str / bytes value of unbounded symbolic length: characters arr[off + i] for 0 <= i < ln (a view: slicing keeps the
    array and moves off / ln).  maxlen: a static upper bound of ln when the slice bounds differ by a constant."""
    kind = "seq"

    def __init__(self, arr, off, ln, maxlen=None):
        self.arr, self.off, self.ln, self.maxlen = arr, off, ln, maxlen


class PGhost(PV):
    """ghost (specification-only) state of any z3 sort; never read or written by the subject's code"""
    kind = "ghost"

    def __init__(self, t):
        self.t = t


NONE_ADDR = -1     # dict.get() miss / None stored in an Int cell


class Heap:
    """functional heap: named z3 arrays.  list.len[a], list.el[a][i], set.mem[a][x], dict.has[a][k], dict.val[a][k],
    fld.<name>[a]; alloc = first unused address."""

    def __init__(self, comps=None, alloc=None):
        self.c = dict(comps or {})
        self.alloc = alloc

    def copy(self):
        return Heap(self.c, self.alloc)

    def get(self, name):
        if name not in self.c:
            if name.startswith("fld.") or name == "list.len":
                srt = ARR_II
            elif name in ("list.el", "dict.val"):
                srt = z3.ArraySort(IntSort, ARR_II)
            elif name in ("set.mem", "dict.has"):
                srt = z3.ArraySort(IntSort, ARR_IB)
            else:
                raise KeyError(name)
            self.c[name] = z3.Const("H0." + name, srt)
        return self.c[name]

    # read accessors (also used by contracts through HeapView)
    def len(self, a):
        return z3.Select(self.get("list.len"), a)

    def el(self, a, i):
        return z3.Select(z3.Select(self.get("list.el"), a), i)

    def els(self, a):
        return z3.Select(self.get("list.el"), a)

    def mem(self, a, x):
        return z3.Select(z3.Select(self.get("set.mem"), a), x)

    def memset(self, a):
        return z3.Select(self.get("set.mem"), a)

    def has(self, a, k):
        return z3.Select(z3.Select(self.get("dict.has"), a), k)

    def val(self, a, k):
        return z3.Select(z3.Select(self.get("dict.val"), a), k)

    def fld(self, name, a):
        return z3.Select(self.get("fld." + name), a)

    def set(self, name, arr):
        self.c[name] = arr


_INTERN = {}


def intern_id(text):
    """abstract identity of a constant string: a distinct integer >= 10**9 per distinct text"""
    if text not in _INTERN:
        _INTERN[text] = 10 ** 9 + len(_INTERN)
    return z3.IntVal(_INTERN[text])


class POpaque(PAny):
    """arbitrary Python object known only by an abstract identity (equal ids <=> same value)"""
    kind = "opaque"


class PList(PV):
    """list display used only as a value (membership tests against literal lists): never stored"""
    kind = "listlit"

    def __init__(self, items):
        self.items = list(items)


def ival(v):
    """Int term of a value usable as an integer / cell content"""
    if isinstance(v, PStr) and v.text is not None:
        return intern_id(v.text)
    if isinstance(v, PInt):
        return v.t
    if isinstance(v, PAny):
        return v.t
    if isinstance(v, PBool):
        return z3.If(v.b, z3.IntVal(1), z3.IntVal(0))
    if isinstance(v, PRef):
        return v.addr
    if isinstance(v, PNone):
        return z3.IntVal(NONE_ADDR)
    if isinstance(v, POpt):
        return z3.If(v.is_none, z3.IntVal(NONE_ADDR), v.ref.addr)
    if isinstance(v, PSeq):
        return PAIR(v.off, v.off + v.ln)
    if isinstance(v, PTuple) and len(v.items) >= 2:
        # a tuple used as a dict key / set element: an injective pairing of the component identities
        # (PAIR is declared injective through its two projections, asserted once in TUPLE_AXIOMS)
        t = ival(v.items[-1])
        for x in reversed(v.items[:-1]):
            t = PAIR(ival(x), t)
        return t
    raise OutOfSubset("value of kind %s used as a cell content" % v.kind)


PAIR = z3.Function("pair", z3.IntSort(), z3.IntSort(), z3.IntSort())
_pa, _pb = z3.Ints("a!pair b!pair")
TUPLE_AXIOMS = z3.ForAll([_pa, _pb], z3.And(z3.Function("pair_fst", z3.IntSort(), z3.IntSort())(PAIR(_pa, _pb)) == _pa,
                                            z3.Function("pair_snd", z3.IntSort(), z3.IntSort())(PAIR(_pa, _pb)) == _pb),
                         patterns=[PAIR(_pa, _pb)])


class PState:
    def __init__(self):
        self.vars = {}
        self.path = []
        self.heap = Heap()

    def copy(self):
        s = PState()
        s.vars = dict(self.vars)
        s.path = list(self.path)
        s.heap = self.heap.copy()
        return s


class MergeFail(Exception):
    pass


def merge_val(c, a, b):
    if a is b:
        return a
    if a is None or b is None:
        return a if b is None else b
    if type(a) is not type(b):
        if isinstance(a, (PInt, PAny)) and isinstance(b, (PInt, PAny)):
            return PAny(z3.If(c, a.t, b.t))
        if isinstance(a, PNone) and isinstance(b, PRef):
            return POpt(c if True else None, b) if False else POpt(c, b)
        if isinstance(a, PRef) and isinstance(b, PNone):
            return POpt(z3.Not(c), a)
        raise MergeFail()
    if isinstance(a, PInt):
        return a if a.t.eq(b.t) else PInt(z3.If(c, a.t, b.t))
    if isinstance(a, PGhost):
        return a if a.t.eq(b.t) else PGhost(z3.If(c, a.t, b.t))
    if isinstance(a, PAny):
        return a if a.t.eq(b.t) else type(a)(z3.If(c, a.t, b.t))
    if isinstance(a, PBool):
        return a if a.b.eq(b.b) else PBool(z3.If(c, a.b, b.b))
    if isinstance(a, PNone):
        return a
    if isinstance(a, PRef):
        if a.cls != b.cls:
            raise MergeFail()
        return a if a.addr.eq(b.addr) else PRef(a.cls, z3.If(c, a.addr, b.addr))
    if isinstance(a, PTuple):
        if len(a.items) != len(b.items):
            raise MergeFail()
        return PTuple([merge_val(c, x, y) for x, y in zip(a.items, b.items)])
    if isinstance(a, PStr):
        if len(a.codes) != len(b.codes):
            raise MergeFail()
        return PStr([x if x.eq(y) else z3.If(c, x, y) for x, y in zip(a.codes, b.codes)])
    if isinstance(a, POpt):
        return POpt(z3.If(c, a.is_none, b.is_none), merge_val(c, a.ref, b.ref))
    raise MergeFail()


# ------------------------------------------------------------------------------- executor

class Callee:
    """contract of a called function/method used at call sites.
    params: names; requires/ensures: [(label, fn(e))] with e.<param>, e.h0 (heap before), e.h (heap after), e.result;
    modifies(e) -> list of ('list', addr) | ('set', addr) | ('dict', addr) | ('fld', name, addr) | ('alloc',);
    result_kind: 'int' | 'bool' | 'none' | 'ref:<cls>' | callable(e)->PV"""

    def __init__(self, name, params, requires=None, ensures=None, modifies=None, result_kind="none", raises=None):
        self.name, self.params = name, params
        self.requires, self.ensures = requires or [], ensures or []
        self.modifies, self.result_kind = modifies, result_kind
        self.raises = raises or []


class Env:
    def __init__(*args, **kw):          # no named `self`: contracts of methods have a parameter called self
        args[0].__dict__.update(kw)


class PyExec:
    def __init__(self, tree, qualname, consts=None, callees=None, prefix="", options=None, module_funcs=None):
        self.tree = tree
        self.qualname = qualname
        self.func = find_function(tree, qualname)
        if self.func is None:
            raise StaleContract("function %s not found in the module" % qualname)
        self.consts = consts or {}
        self.callees = callees or {}
        self.prefix = prefix
        self.opt = dict(invariants={}, unroll={}, local_types={}, max_steps=20000, inline=(), allow_raise=())
        if options:
            self.opt.update(options)
        self.obligations = []
        self.assumptions = set()
        self.fresh_n = 0
        self.steps = 0
        self.counter = {}
        self.loop_ordinal = 0
        self.base_line = self.func.lineno
        self.ann = {}         # local name -> cython type name (range obligations)
        self.dropped = set()

    # ---------------------------------------------------------------- infrastructure
    def fresh(self, base, sort=None):
        self.fresh_n += 1
        nm = "%s!%d" % (base, self.fresh_n)
        return z3.Int(nm) if sort is None else z3.Const(nm, sort)

    def oblige(self, st, kind, what, goal, node=None, note=""):
        line = (getattr(node, "lineno", self.base_line) - self.base_line) if node is not None else 0
        key = "%s.%s@L%d" % (kind, what, line)
        n = self.counter.get(key, 0)
        self.counter[key] = n + 1
        name = "%s%s%s" % (self.prefix, key, "" if n == 0 else ".%d" % n)
        if isinstance(goal, bool):
            goal = z3.BoolVal(goal)
        g = z3.simplify(goal)
        if z3.is_true(g):
            ob = Obligation(name, kind, [], z3.BoolVal(True), loc=line, note=note)
            ob.status, ob.backend = "proved", "simplify"
            self.obligations.append(ob)
            return
        self.obligations.append(Obligation(name, kind, st.path, goal, loc=line, note=note))

    def guard(self, st, exc, cond, node, note=""):
        """implicit exception site: obligation `cond` (or the contract allows `exc` here), then continue under cond"""
        allowed = None
        for k, a in self.opt.get("allow_exc", {}).items():
            if exc.startswith(k):
                allowed = a
        base = exc.split(".")[0]
        for frame in reversed(getattr(self, "try_stack", [])):
            if base in frame["catches"] or "Exception" in frame["catches"]:
                # inside `try: ... except <base>:` - the failing case continues in the handler, from the state reached here
                s2 = st.copy()
                s2.path.append(z3.Not(cond))
                frame["raised"].append((s2, base))
                st.path.append(cond)
                return
        self.oblige(st, "exc", exc, cond if allowed is None else z3.Or(cond, allowed), node, note)
        st.path.append(cond)

    def tick_id(self):
        self._tid = getattr(self, "_tid", 0) + 1
        return self._tid

    def tick(self):
        self.steps += 1
        if self.steps > self.opt["max_steps"]:
            raise OutOfSubset("step budget exceeded")

    # ---------------------------------------------------------------- truthiness / conversion
    def truth(self, st, v, node=None):
        if isinstance(v, PBool):
            return v.b
        if isinstance(v, POpaque):
            # truth value of an arbitrary Python object: an uninterpreted predicate of its identity
            return z3.Function("truthy", IntSort, z3.BoolSort())(v.t)
        if isinstance(v, (PInt, PAny)):
            return v.t != 0
        if isinstance(v, PNone):
            return z3.BoolVal(False)
        if isinstance(v, POpt):
            return z3.And(z3.Not(v.is_none), self.truth(st, v.ref, node))
        if isinstance(v, PRef):
            if v.cls in ("list", "strbuilder"):
                return st.heap.len(v.addr) != 0
            if v.cls == "set":
                x = z3.Int("x!nonempty")
                return z3.Exists([x], st.heap.mem(v.addr, x))        # a set is true iff it has a member
            return z3.BoolVal(True)
        if isinstance(v, PStr):
            return z3.BoolVal(len(v.codes) > 0)
        if isinstance(v, PTuple):
            return z3.BoolVal(len(v.items) > 0)
        raise OutOfSubset("truth value of %s" % v.kind)

    def as_int(self, st, v, node, what="operand"):
        if isinstance(v, PInt):
            return v.t
        if isinstance(v, PAny):
            return v.t
        if isinstance(v, PBool):
            return z3.If(v.b, z3.IntVal(1), z3.IntVal(0))
        raise OutOfSubset("%s of kind %s where an int is required" % (what, v.kind))

    # ---------------------------------------------------------------- int operators
    def int_binop(self, st, op, a, b, node):
        if op == "+":
            return a + b
        if op == "-":
            return a - b
        if op == "*":
            return a * b
        if op in ("//", "%"):
            self.guard(st, "ZeroDivisionError", b != 0, node)
            return S.floordiv(a, b) if op == "//" else S.pymod(a, b)
        if op == "<<":
            self.guard(st, "ValueError.negative_shift", b >= 0, node)
            return a * self.pow2(st, b, node)
        if op == ">>":
            self.guard(st, "ValueError.negative_shift", b >= 0, node)
            return S.floordiv(a, self.pow2(st, b, node))
        if op in ("&", "|", "^"):
            return self.bitop(st, op, a, b, node)
        raise OutOfSubset("int operator %s" % op)

    def pow2(self, st, k, node):
        if z3.is_int_value(k):
            return z3.IntVal(1 << k.as_long())
        self.oblige(st, "subset", "shift_count<=64", k <= 64, node,
                    note="symbolic shift counts are modelled up to 64")
        return S.pow2(k)

    def bitop(self, st, op, a, b, node):
        """Python ints are infinite two's complement.  Idioms (proved in contracts/idioms_py.py):
           x & (2^k-1) = x mod 2^k;  x & ~(2^k-1) = x - x mod 2^k;  c | x for constant c bit by bit;
           (m*2^k) | y = m*2^k + y for 0 <= y < 2^k.  Otherwise a 64-bit island with range obligations."""
        av = a.as_long() if z3.is_int_value(a) else None
        bv = b.as_long() if z3.is_int_value(b) else None
        if av is not None and bv is not None:
            return z3.IntVal({"&": av & bv, "|": av | bv, "^": av ^ bv}[op])
        if op == "&":
            for c, o in ((av, b), (bv, a)):
                if c is None:
                    continue
                if c >= 0 and (c & (c + 1)) == 0:
                    return o % (c + 1) if c else z3.IntVal(0)
                if c < 0 and ((~c) & ((~c) + 1)) == 0:
                    return o - o % ((~c) + 1)
                if c >= 0:
                    # general non-negative constant mask: sum over its runs of set bits  [lo, lo+len):
                    # ((x div 2^lo) mod 2^len) * 2^lo   (two's complement, any sign of x)
                    r, k = z3.IntVal(0), 0
                    while (1 << k) <= c:
                        if c & (1 << k):
                            lo = k
                            while c & (1 << k):
                                k += 1
                            r = r + ((o / (1 << lo)) % (1 << (k - lo))) * (1 << lo)
                        else:
                            k += 1
                    return r
        if op == "|":
            for c, o in ((av, b), (bv, a)):
                if c is not None and c >= 0:
                    r = o
                    k = 0
                    while (1 << k) <= c:
                        if c & (1 << k):
                            r = z3.If((r / (1 << k)) % 2 == 0, r + (1 << k), r)
                        k += 1
                    return r
            for x, y in ((a, b), (b, a)):
                m = self.shl_parts(x)
                if m is not None:
                    base, k = m
                    return z3.If(z3.And(y >= 0, y < (1 << k)), x + y, self.island(st, op, a, b, node))
            # semantic idiom, decided by the solver under the current path: x is a multiple of 2^k and 0 <= y < 2^k
            # (disjoint bits)  =>  x | y == x + y
            from .core import check_sat as _cs
            for x, y in ((a, b), (b, a)):
                for k in range(1, 33):
                    cond = z3.And(x % (1 << k) == 0, y >= 0, y < (1 << k))
                    if _cs(list(st.path) + [z3.Not(cond)], 2) == z3.unsat:
                        return x + y
        return self.island(st, op, a, b, node)

    def shl_parts(self, t):
        """t == base * 2^k syntactically?"""
        if z3.is_app(t) and t.decl().kind() == z3.Z3_OP_MUL and t.num_args() == 2:
            x, y = t.arg(0), t.arg(1)
            for u, v in ((x, y), (y, x)):
                if z3.is_int_value(v):
                    c = v.as_long()
                    if c > 0 and (c & (c - 1)) == 0:
                        return u, c.bit_length() - 1
        return None

    def island(self, st, op, a, b, node):
        lo, hi = -(1 << 63), (1 << 63) - 1
        self.oblige(st, "subset", "bitop_operands_fit_64_bits", z3.And(a >= lo, a <= hi, b >= lo, b <= hi), node,
                    note="bit operation outside the idioms is modelled on 64-bit two's complement")
        x, y = z3.Int2BV(a, 64), z3.Int2BV(b, 64)
        r = {"&": x & y, "|": x | y, "^": x ^ y}[op]
        return z3.BV2Int(r, is_signed=True)

    # ---------------------------------------------------------------- expressions
    def ev(self, st, n):
        self.tick()
        m = getattr(self, "ev_" + type(n).__name__, None)
        if m is None:
            raise OutOfSubset("expression %s (line %d)" % (type(n).__name__, getattr(n, "lineno", 0)))
        return m(st, n)

    def ev_Constant(self, st, n):
        v = n.value
        if isinstance(v, bool):
            return PBool(v)
        if isinstance(v, int):
            return PInt(v)
        if v is None:
            return PNone()
        if isinstance(v, str):
            return PStr([z3.IntVal(ord(c)) for c in v], text=v)
        raise OutOfSubset("constant %r" % (v,))

    def ev_Name(self, st, n):
        if n.id in st.vars:
            v = st.vars[n.id]
            if v is None:
                self.oblige(st, "exc", "UnboundLocalError." + n.id, False, n)
                raise OutOfSubset("read of unbound local %s" % n.id)
            return v
        if n.id in self.consts:
            c = self.consts[n.id]
            if isinstance(c, bool):
                return PBool(c)
            if isinstance(c, int):
                return PInt(c)
            if isinstance(c, str):
                return PStr([z3.IntVal(ord(ch)) for ch in c], text=c)
            if c is None:
                return PNone()
            if isinstance(c, tuple):
                items = []
                for x in c:
                    items.append(PBool(x) if isinstance(x, bool) else PInt(x) if isinstance(x, int)
                                 else PStr([z3.IntVal(ord(ch)) for ch in x], text=x))
                return PTuple(items)
        if n.id in ("True", "False"):
            return PBool(n.id == "True")
        if n.id in self.opt.get("opaque_names", ()):
            # a module-level function / object only passed around (never called or inspected by the subject)
            return POpaque(intern_id("name:" + n.id))
        raise OutOfSubset("name %s" % n.id)

    def ev_Tuple(self, st, n):
        return PTuple([self.ev(st, e) for e in n.elts])

    def ev_UnaryOp(self, st, n):
        v = self.ev(st, n.operand)
        if isinstance(n.op, ast.Not):
            return PBool(z3.Not(self.truth(st, v, n)))
        t = self.as_int(st, v, n)
        if z3.is_int_value(t):
            c = t.as_long()
            return PInt({ast.USub: -c, ast.UAdd: c, ast.Invert: ~c}[type(n.op)])
        if isinstance(n.op, ast.USub):
            return PInt(-t)
        if isinstance(n.op, ast.UAdd):
            return PInt(t)
        if isinstance(n.op, ast.Invert):
            return PInt(-t - 1)
        raise OutOfSubset("unary operator")

    OPS = {ast.Add: "+", ast.Sub: "-", ast.Mult: "*", ast.FloorDiv: "//", ast.Mod: "%", ast.LShift: "<<",
           ast.RShift: ">>", ast.BitAnd: "&", ast.BitOr: "|", ast.BitXor: "^"}

    def ev_BinOp(self, st, n):
        op = self.OPS.get(type(n.op))
        if isinstance(n.op, ast.Pow):
            # constant ** constant (e.g. 2**30) only: folded; anything else stays outside the subset
            a, b = self.ev(st, n.left), self.ev(st, n.right)
            if (isinstance(a, PInt) and isinstance(b, PInt) and z3.is_int_value(z3.simplify(a.t)) and z3.is_int_value(z3.simplify(b.t))
                    and 0 <= z3.simplify(b.t).as_long() <= 4096):
                return PInt(z3.simplify(a.t).as_long() ** z3.simplify(b.t).as_long())
            raise OutOfSubset("binary operator Pow on non-constants")
        if op is None:
            raise OutOfSubset("binary operator %s" % type(n.op).__name__)
        a = self.ev(st, n.left)
        b = self.ev(st, n.right)
        if op == "+" and isinstance(a, PStr) and isinstance(b, PStr):
            return PStr(a.codes + b.codes, text=(a.text + b.text) if a.text is not None and b.text is not None else None)
        if op == "+" and isinstance(a, PTuple) and isinstance(b, PTuple):
            return PTuple(a.items + b.items)
        if op == "*" and isinstance(b, (PInt, PAny)) and (isinstance(a, PTuple) and len(a.items) == 1 or (
                isinstance(a, PRef) and a.cls in ("list", "tuple") and z3.is_int_value(z3.simplify(st.heap.len(a.addr)))
                and z3.simplify(st.heap.len(a.addr)).as_long() == 1)):
            # [x] * n / (x,) * n: a new sequence of max(n, 0) references to x
            x0 = ival(a.items[0]) if isinstance(a, PTuple) else st.heap.el(a.addr, 0)
            cnt = self.as_int(st, b, n)
            return self.new_seq(st, "tuple" if isinstance(a, PTuple) else a.cls, z3.If(cnt > 0, cnt, 0), z3.K(IntSort, x0))
        if op == "+" and isinstance(a, PRef) and isinstance(b, PRef) and a.cls == b.cls and a.cls in ("tuple", "list"):
            la, lb = st.heap.len(a.addr), st.heap.len(b.addr)
            ea, eb = st.heap.els(a.addr), st.heap.els(b.addr)
            j = z3.Int("j!concat")
            return self.new_seq(st, a.cls, la + lb, z3.Lambda([j], z3.If(j < la, z3.Select(ea, j), z3.Select(eb, j - la))))
        x = self.as_int(st, a, n)
        y = self.as_int(st, b, n)
        return PInt(self.int_binop(st, op, x, y, n))

    def ev_BoolOp(self, st, n):
        # short circuit with path-guarded evaluation of later operands; result is Bool when operands are Bools
        is_and = isinstance(n.op, ast.And)
        vals = []
        guards = []
        cur = st
        saved_path_len = len(st.path)
        acc = None
        for i, e in enumerate(n.values):
            v = self.ev(cur, e)
            t = self.truth(cur, v, e)
            vals.append((v, t))
            if i < len(n.values) - 1:
                g = z3.simplify(t if is_and else z3.Not(t))
                if z3.is_false(g):
                    break              # the remaining operands are never evaluated (`x is None or x.attr` with x None)
                cur = cur.copy()
                cur.path.append(g)
        # all operands pure in the subset (no assignment expressions): state unchanged
        ts = [t for _, t in vals]
        if all(isinstance(v, PBool) for v, _ in vals):
            return PBool(z3.And(*ts) if is_and else z3.Or(*ts))
        if (not is_and and len(vals) == 2 and all(isinstance(v, (POpt, PRef)) for v, _ in vals)
                and len({(v.ref.cls if isinstance(v, POpt) else v.cls) for v, _ in vals}) == 1):
            # `a or b` on two (optional) references of one class: a unless it is None (objects of contract classes are truthy), else b
            def parts(v):
                return (v.is_none, v.ref.addr, v.ref.cls) if isinstance(v, POpt) else (z3.BoolVal(False), v.addr, v.cls)
            (na, xa, cls), (nb, xb, _) = parts(vals[0][0]), parts(vals[1][0])
            return POpt(z3.And(na, nb), PRef(cls, z3.If(na, xb, xa)))
        if not all(isinstance(v, (PBool, PStr, PInt)) or (isinstance(v, PAny) and not isinstance(v, POpaque)) for v, _ in vals):
            # operands with object truthiness (references, None, opaque values): only the truth value is modelled
            return PBool(z3.And(*ts) if is_and else z3.Or(*ts))
        # value semantics: `a and b` is b if a is truthy else a; `a or b` is a if a is truthy else b (right to left fold)
        out = vals[-1][0]
        for v, t in reversed(vals[:-1]):
            a, b = (out, v) if is_and else (v, out)
            try:
                out = merge_val(t, a, b)
            except (MergeFail, OutOfSubset):
                out = PAny(z3.If(t, ival(a), ival(b)))
        return out

    CMP = {ast.Lt: "<", ast.LtE: "<=", ast.Gt: ">", ast.GtE: ">=", ast.Eq: "==", ast.NotEq: "!="}

    def ev_Compare(self, st, n):
        left = self.ev(st, n.left)
        conj = []
        for op, rn in zip(n.ops, n.comparators):
            if isinstance(op, (ast.In, ast.NotIn)) and isinstance(rn, (ast.List, ast.Tuple, ast.Set)):
                right = PList([self.ev(st, x) for x in rn.elts])      # membership in a display: no allocation
            else:
                right = self.ev(st, rn)
            conj.append(self.compare(st, op, left, right, n))
            left = right
        return PBool(z3.And(*conj) if len(conj) > 1 else conj[0])

    def compare(self, st, op, a, b, n):
        if isinstance(op, (ast.Is, ast.IsNot)):
            if isinstance(b, PNone) or isinstance(a, PNone):
                o = a if isinstance(b, PNone) else b
                if isinstance(o, PNone):
                    r = z3.BoolVal(True)
                elif isinstance(o, POpt):
                    r = o.is_none
                elif isinstance(o, PAny):
                    r = o.t == NONE_ADDR
                else:
                    r = z3.BoolVal(False)
                return r if isinstance(op, ast.Is) else z3.Not(r)
            if isinstance(a, PRef) and isinstance(b, PRef):
                r = a.addr == b.addr
                return r if isinstance(op, ast.Is) else z3.Not(r)
            if (isinstance(a, POpt) and isinstance(b, (PRef, POpt))) or (isinstance(b, POpt) and isinstance(a, PRef)):
                # an optional reference is identical to an object iff it is not None and holds that object's address
                def parts(v):
                    return (v.is_none, v.ref.addr) if isinstance(v, POpt) else (z3.BoolVal(False), v.addr)
                (na, xa), (nb, xb) = parts(a), parts(b)
                r = z3.Or(z3.And(na, nb), z3.And(z3.Not(na), z3.Not(nb), xa == xb))
                return r if isinstance(op, ast.Is) else z3.Not(r)
            if isinstance(a, PAny) and isinstance(b, PAny):
                r = a.t == b.t          # abstract identities
                return r if isinstance(op, ast.Is) else z3.Not(r)
            raise OutOfSubset("`is` on %s / %s" % (a.kind, b.kind))
        if isinstance(op, (ast.In, ast.NotIn)):
            if isinstance(b, PTuple):
                r = z3.Or(*[self.eq(st, a, x, n) for x in b.items]) if b.items else z3.BoolVal(False)
            elif isinstance(b, PList):
                r = z3.Or(*[self.eq(st, a, x, n) for x in b.items]) if b.items else z3.BoolVal(False)
            elif isinstance(b, PRef) and b.cls == "set":
                r = st.heap.mem(b.addr, ival(a))
            elif isinstance(b, PRef) and b.cls == "dict":
                r = st.heap.has(b.addr, ival(a))
            elif isinstance(b, PStr) and b.text is not None and isinstance(a, PStr) and len(a.codes) == 1:
                # one character in a constant string
                r = z3.Or(*[a.codes[0] == ord(ch) for ch in b.text]) if b.text else z3.BoolVal(False)
            elif isinstance(b, PSeq) and isinstance(a, PStr) and len(a.codes) == 1:
                if b.maxlen is not None:
                    r = z3.Or(*[z3.And(j < b.ln, z3.Select(b.arr, b.off + j) == a.codes[0]) for j in range(b.maxlen)]) \
                        if b.maxlen else z3.BoolVal(False)
                else:
                    j = z3.Int("j!in%d" % self.tick_id())
                    r = z3.Exists([j], z3.And(j >= 0, j < b.ln, z3.Select(b.arr, b.off + j) == a.codes[0]))
            elif isinstance(b, PStr) and b.text is not None and isinstance(a, PAny) and self.opt.get("string_universe"):
                # substring test `x in "<constant>"` for a string-valued cell x: strings are interned ids, so the test is
                # decided over the finite universe of strings the contract says the cell can hold (obligation: it does)
                uni = list(self.opt["string_universe"])
                self.oblige(st, "subset", "string_cell_within_declared_universe", z3.Or(*[a.t == intern_id(u) for u in uni]), n)
                hits = [a.t == intern_id(u) for u in uni if u in b.text]
                r = z3.Or(*hits) if hits else z3.BoolVal(False)
            else:
                raise OutOfSubset("`in` on %s" % b.kind)
            return r if isinstance(op, ast.In) else z3.Not(r)
        o = self.CMP.get(type(op))
        if o is None:
            raise OutOfSubset("comparison %s" % type(op).__name__)
        if o in ("==", "!="):
            r = self.eq(st, a, b, n)
            return r if o == "==" else z3.Not(r)
        x, y = self.as_int(st, a, n), self.as_int(st, b, n)
        return {"<": x < y, "<=": x <= y, ">": x > y, ">=": x >= y}[o]

    def eq(self, st, a, b, n):
        if self.opt.get("opaque_eq_uf"):
            # Python's == between an abstract value and a literal constant is NOT identity of abstractions (2.0 == 2): an
            # uninterpreted predicate per constant
            for x, c in ((a, b), (b, a)):
                if isinstance(x, POpaque) and isinstance(c, PInt) and z3.is_int_value(c.t):
                    return z3.Function("py_eq_const_%d" % c.t.as_long(), IntSort, z3.BoolSort())(x.t)
        if isinstance(a, (PInt, PAny, PBool)) and isinstance(b, (PInt, PAny, PBool)):
            return self.as_int(st, a, n) == self.as_int(st, b, n)
        # a heap cell / opaque value compared with a string constant: strings are abstracted to interned ids
        # (distinct constants <-> distinct ids; every other id stands for "some other string")
        if isinstance(a, PAny) and isinstance(b, PStr) and b.text is not None:
            return a.t == intern_id(b.text)
        if isinstance(b, PAny) and isinstance(a, PStr) and a.text is not None:
            return b.t == intern_id(a.text)
        if isinstance(a, PStr) and isinstance(b, PStr):
            if len(a.codes) != len(b.codes):
                return z3.BoolVal(False)
            return z3.And(*[x == y for x, y in zip(a.codes, b.codes)]) if a.codes else z3.BoolVal(True)
        if isinstance(a, PNone) or isinstance(b, PNone):
            o = b if isinstance(a, PNone) else a
            if isinstance(o, PNone):
                return z3.BoolVal(True)
            if isinstance(o, POpt):
                return o.is_none
            return z3.BoolVal(False)
        if isinstance(a, PRef) and isinstance(b, PRef) and self.opt.get("eq_uf"):
            # user-defined __eq__ on opaque objects: an uninterpreted relation, reflexive (identical objects are equal)
            f = z3.Function("obj_eq", IntSort, IntSort, z3.BoolSort())
            st.path.append(z3.Implies(a.addr == b.addr, f(a.addr, b.addr)))
            return f(a.addr, b.addr)
        if isinstance(a, PTuple) and isinstance(b, PTuple):
            if len(a.items) != len(b.items):
                return z3.BoolVal(False)
            return z3.And(*[self.eq(st, x, y, n) for x, y in zip(a.items, b.items)]) if a.items else z3.BoolVal(True)
        raise OutOfSubset("== on %s / %s" % (a.kind, b.kind))

    def ev_IfExp(self, st, n):
        c = z3.simplify(self.truth(st, self.ev(st, n.test), n))
        if z3.is_true(c):
            return self.ev(st, n.body)
        if z3.is_false(c):
            return self.ev(st, n.orelse)
        s1, s2 = st.copy(), st.copy()
        s1.path.append(c)
        s2.path.append(z3.Not(c))
        a, b = self.ev(s1, n.body), self.ev(s2, n.orelse)
        try:
            return merge_val(c, a, b)
        except MergeFail:
            # values of different shapes (e.g. two string constants of different length): only their identities are kept
            return PAny(z3.If(c, ival(a), ival(b)))

    def ev_JoinedStr(self, st, n):
        codes = []
        for part in n.values:
            if isinstance(part, ast.Constant) and isinstance(part.value, str):
                codes += [z3.IntVal(ord(c)) for c in part.value]
            elif isinstance(part, ast.FormattedValue):
                spec = None
                if part.format_spec is not None:
                    fs = part.format_spec
                    if len(fs.values) == 1 and isinstance(fs.values[0], ast.Constant):
                        spec = fs.values[0].value
                if spec != "c" or part.conversion != -1:
                    raise OutOfSubset("f-string field other than {x:c}")
                t = self.as_int(st, self.ev(st, part.value), n)
                self.guard(st, "OverflowError.format_c_range", z3.And(t >= 0, t <= 0x10FFFF), n)
                codes.append(t)
            else:
                raise OutOfSubset("f-string part")
        return PStr(codes)

    def ev_Attribute(self, st, n):
        mods = self.opt.get("modules", {})
        if isinstance(n.value, ast.Name) and n.value.id in mods and n.value.id not in st.vars:
            # Module.attr: a singleton object of the class the contract names (distinct attributes <-> distinct objects)
            return PRef(mods[n.value.id], intern_id("%s.%s" % (n.value.id, n.attr)))
        o = self.ev(st, n.value)
        if isinstance(o, POpt):
            self.guard(st, "AttributeError.None", z3.Not(o.is_none), n)
            o = o.ref
        if isinstance(o, PRef) and o.cls.startswith("obj:"):
            kind = self.field_kind(o.cls, n.attr)
            t = st.heap.fld(n.attr, o.addr)
            return self.cell_to_val(kind, t)
        raise OutOfSubset("attribute %s of %s" % (n.attr, o.kind))

    def field_kind(self, cls, attr):
        fk = self.opt.get("fields", {}).get(cls, {})
        if attr not in fk:
            raise OutOfSubset("field %s.%s is not described by the contract" % (cls, attr))
        return fk[attr]

    def cell_to_val(self, kind, t):
        if kind == "int":
            return PInt(t)
        if kind == "bool":
            return PBool(t != 0)
        if kind == "any":
            return PAny(t)
        if kind == "opaque":
            return POpaque(t)
        if kind.startswith("ref:"):
            return PRef(kind[4:], t)
        if kind.startswith("opt:"):
            return POpt(t == NONE_ADDR, PRef(kind[4:], t))
        raise OutOfSubset("cell kind %s" % kind)

    def ev_Subscript(self, st, n):
        o = self.ev(st, n.value)
        if isinstance(n.slice, ast.Slice):
            if isinstance(o, PSeq) and n.slice.step is None:
                return self.seq_slice(st, o, n.slice, n)
            raise OutOfSubset("slice read")
        idx = self.ev(st, n.slice)
        if isinstance(o, PSeq):
            i = self.as_int(st, idx, n)
            self.guard(st, "IndexError", z3.And(i >= -o.ln, i < o.ln), n)
            j = z3.If(i < 0, i + o.ln, i)
            return PStr([z3.Select(o.arr, o.off + j)])
        if isinstance(o, PTuple):
            i = self.as_int(st, idx, n)
            if z3.is_int_value(i):
                k = i.as_long()
                if -len(o.items) <= k < len(o.items):
                    return o.items[k]
            raise OutOfSubset("symbolic tuple index")
        if isinstance(o, PRef) and o.cls in ("list", "strbuilder", "bytelist", "tuple"):
            i = self.as_int(st, idx, n)
            ln = st.heap.len(o.addr)
            self.guard(st, "IndexError", z3.And(i >= -ln, i < ln), n)
            j = z3.If(i < 0, i + ln, i) if not (z3.is_int_value(i) and i.as_long() >= 0) else i
            kind = self.opt.get("elem_kind", {}).get(o.cls, "any")
            return self.cell_to_val(kind, st.heap.el(o.addr, j))
        if isinstance(o, PRef) and o.cls == "dict":
            k = ival(idx)
            self.guard(st, "KeyError", st.heap.has(o.addr, k), n)
            return self.cell_to_val(self.opt.get("dict_val_kind", "any"), st.heap.val(o.addr, k))
        raise OutOfSubset("subscript on %s" % o.kind)

    def seq_slice(self, st, o, sl, n):
        """s[a:b] with Python's clamping of both bounds into [0, len]"""
        def norm(x):
            return z3.If(x < 0, z3.If(x + o.ln < 0, 0, x + o.ln), z3.If(x > o.ln, o.ln, x))
        lo_raw = self.as_int(st, self.ev(st, sl.lower), n) if sl.lower is not None else z3.IntVal(0)
        hi_raw = self.as_int(st, self.ev(st, sl.upper), n) if sl.upper is not None else o.ln
        lo, hi = norm(lo_raw), norm(hi_raw)
        ln = z3.If(hi > lo, hi - lo, 0)
        width = z3.simplify(hi_raw - lo_raw)
        maxlen = width.as_long() if (z3.is_int_value(width) and sl.lower is not None and sl.upper is not None
                                     and 0 <= width.as_long() <= 16) else None
        # the static bound holds when both raw bounds have the same sign treatment; otherwise drop it
        if maxlen is not None:
            st.path.append(z3.Implies(z3.And(lo_raw >= 0, hi_raw >= 0), ln <= maxlen))
        return PSeq(o.arr, o.off + lo, ln, maxlen)

    def int_of_text(self, st, v, base, n, maxdigits=8):
        """int(text, base) for a text of 1..maxdigits digits of that base (no sign, no underscores, no whitespace): anything
        else is a ValueError site (obligation unless the contract allows it / a handler catches it)"""
        def dig(c):
            d = z3.If(z3.And(c >= 48, c <= 57), c - 48, z3.If(z3.And(c >= 97, c <= 102), c - 87, z3.If(z3.And(c >= 65, c <= 70), c - 55, 99)))
            return d
        ch = lambda j: z3.Select(v.arr, v.off + j)  # noqa: E731
        self.oblige(st, "subset", "int_text.at_most_%d_digits" % maxdigits, v.ln <= maxdigits, n)
        valid = z3.And(v.ln >= 1, *[z3.Implies(j < v.ln, dig(ch(j)) < base) for j in range(maxdigits)])
        self.guard(st, "ValueError.int_literal", valid, n)
        total = z3.IntVal(0)
        for ln in range(1, maxdigits + 1):
            val = z3.IntVal(0)
            for j in range(ln):
                val = val * base + dig(ch(j))
            total = z3.If(v.ln == ln, val, total)
        return total

    def ev_List(self, st, n):
        items = [self.ev(st, e) for e in n.elts]
        return self.new_list(st, items)

    def new_list(self, st, items, cls="list"):
        a = self.alloc(st)
        h = st.heap
        arr = z3.K(IntSort, z3.IntVal(0))
        for i, v in enumerate(items):
            arr = z3.Store(arr, i, ival(v))
        h.set("list.len", z3.Store(h.get("list.len"), a, z3.IntVal(len(items))))
        h.set("list.el", z3.Store(h.get("list.el"), a, arr))
        return PRef(cls, a)

    def new_seq(self, st, cls, ln, els):
        a = self.alloc(st)
        h = st.heap
        h.set("list.len", z3.Store(h.get("list.len"), a, ln))
        h.set("list.el", z3.Store(h.get("list.el"), a, els))
        return PRef(cls, a)

    def alloc(self, st):
        """fresh address: distinct from every address reachable before (addresses below `alloc` are in use)"""
        h = st.heap
        if h.alloc is None:
            h.alloc = z3.Int("H0.alloc")
            st.path.append(h.alloc >= 0)
        a = h.alloc
        h.alloc = a + 1
        return a

    def ev_Call(self, st, n):
        f = n.func
        if isinstance(f, ast.Name):
            return self.call_name(st, f.id, n)
        if isinstance(f, ast.Attribute):
            return self.call_method(st, f, n)
        raise OutOfSubset("call form")

    def args(self, st, n, params=None, none_defaults=False):
        """positional argument values; keyword arguments are accepted when the callee's parameter names are known (a contract):
        evaluated in source order (positional, then keywords as written) and placed at their parameters' positions"""
        vals = [self.ev(st, a) for a in n.args]
        if n.keywords:
            if params is None or any(k.arg is None for k in n.keywords):
                raise OutOfSubset("keyword arguments")
            slots = dict(enumerate(vals))
            for k in n.keywords:
                if k.arg not in params:
                    raise StaleContract("keyword argument %s is not a parameter of the contract (%s)" % (k.arg, ", ".join(params)))
                pos = params.index(k.arg)
                if pos in slots:
                    raise OutOfSubset("keyword argument %s given twice" % k.arg)
                slots[pos] = self.ev(st, k.value)
            if sorted(slots) != list(range(len(slots))):
                if not none_defaults:
                    raise OutOfSubset("keyword arguments leave a gap in the parameter list (defaults are not modelled)")
                for i in range(max(slots) + 1):
                    slots.setdefault(i, PNone())       # the contract states that the skipped parameters default to None
            vals = [slots[i] for i in range(len(slots))]
        return vals

    def call_name(self, st, name, n):
        if name == "getattr" and len(n.args) in (2, 3) and isinstance(n.args[1], ast.Constant) and isinstance(n.args[1].value, str) and not n.keywords:
            # getattr(obj, '<name>'[, default]) on an object whose contract declares that field: the attribute read (the default is never used)
            o = self.ev(st, n.args[0])
            if isinstance(o, PRef) and n.args[1].value in self.opt.get("fields", {}).get(o.cls, {}):
                if len(n.args) == 3:
                    self.ev(st, n.args[2])
                return self.ev_Attribute(st, ast.copy_location(ast.Attribute(value=n.args[0], attr=n.args[1].value, ctx=ast.Load()), n))
            raise OutOfSubset("getattr on %s" % o.kind)
        if name in ("any", "all") and len(n.args) == 1 and isinstance(n.args[0], ast.GeneratorExp) and not n.keywords:
            # any(<generator>) / all(<generator>): an ARBITRARY boolean - its iteration is not modelled, both answers are explored
            # (sound for what follows; stated assumption: the generator's element expressions have no side effects)
            self.assumptions.add("any(<generator>) / all(<generator>) is an arbitrary boolean; its element expressions are assumed free of side effects")
            self.dropped.add("the iteration inside %s(<generator>) (line %d): replaced by an arbitrary boolean" % (name, n.lineno))
            return PBool(self.fresh(name + "_of_generator", z3.BoolSort()))
        if name in self.callees:
            return self.apply_callee(st, self.callees[name], self.args(st, n, self.callees[name].params, getattr(self.callees[name], "none_defaults", False)), n)
        def _cls_name(x):
            return x.id if isinstance(x, ast.Name) else x.attr if isinstance(x, ast.Attribute) else None
        if name == "isinstance" and len(n.args) == 2 and (_cls_name(n.args[1]) or (
                isinstance(n.args[1], ast.Tuple) and all(_cls_name(x) for x in n.args[1].elts))):
            v = self.ev(st, n.args[0])
            classes = [_cls_name(n.args[1])] if not isinstance(n.args[1], ast.Tuple) else [_cls_name(x) for x in n.args[1].elts]
            if isinstance(v, PRef) and v.cls in self.opt.get("dynamic_classes", ()):
                # an object whose static class in the contract is a base class: its dynamic class is an uninterpreted predicate
                return PBool(z3.Or(*[z3.Function("isinstance_" + c, IntSort, z3.BoolSort())(v.addr) for c in classes]))
            if isinstance(v, (PAny, PInt)):
                # the dynamic type of an abstract value: an uninterpreted predicate per class name
                return PBool(z3.Or(*[z3.Function("isinstance_" + c, IntSort, z3.BoolSort())(v.t) for c in classes]))
            if isinstance(v, PRef):
                return PBool(z3.BoolVal(v.cls in classes))
            raise OutOfSubset("isinstance of %s" % v.kind)
        if name == "int" and len(n.args) == 2 and not n.keywords:
            v, base = self.ev(st, n.args[0]), self.ev(st, n.args[1])
            if isinstance(v, PSeq) and isinstance(base, PInt) and z3.is_int_value(base.t) and base.t.as_long() in (8, 10, 16):
                return PInt(self.int_of_text(st, v, base.t.as_long(), n))
            raise OutOfSubset("int(text, base)")
        if name in self.opt.get("identity_functions", ()) and len(n.args) == 1 and not n.keywords:
            return self.ev(st, n.args[0])       # e.g. str(x) for an x the contract says is already a str
        if name in ("str", "repr", "float", "hash", "id") and len(n.args) == 1 and not n.keywords:
            v = self.ev(st, n.args[0])
            if isinstance(v, (PAny, PInt)):
                # text renderings of an abstract value: two DIFFERENT uninterpreted functions (nothing relates str to repr)
                return PAny(z3.Function("builtin_" + name, IntSort, IntSort)(v.t))
            raise OutOfSubset("%s of %s" % (name, v.kind))
        a = self.args(st, n)
        if name == "chr":
            t = self.as_int(st, a[0], n)
            self.guard(st, "ValueError.chr_range", z3.And(t >= 0, t <= 0x10FFFF), n)
            return PStr([t])
        if name == "ord":
            if isinstance(a[0], PStr) and len(a[0].codes) == 1:
                return PInt(a[0].codes[0])
            raise OutOfSubset("ord of non-char")
        if name == "len":
            v = a[0]
            if isinstance(v, PRef) and v.cls in ("list", "strbuilder", "bytelist", "tuple"):
                return PInt(st.heap.len(v.addr))
            if isinstance(v, PTuple):
                return PInt(len(v.items))
            if isinstance(v, PStr):
                return PInt(len(v.codes))
            if isinstance(v, PSeq):
                return PInt(v.ln)
            raise OutOfSubset("len of %s" % v.kind)
        if name in ("tuple", "list") and len(a) == 1 and isinstance(a[0], PRef) and a[0].cls in ("list", "tuple"):
            return self.new_seq(st, name, st.heap.len(a[0].addr), st.heap.els(a[0].addr))
        if name == "abs":
            t = self.as_int(st, a[0], n)
            return PInt(z3.If(t >= 0, t, -t))
        if name in ("min", "max") and len(a) == 2:
            x, y = self.as_int(st, a[0], n), self.as_int(st, a[1], n)
            return PInt(z3.If(x <= y, x, y) if name == "min" else z3.If(x >= y, x, y))
        if name == "int" and len(a) == 1 and isinstance(a[0], (PInt, PBool, PAny)):
            return PInt(self.as_int(st, a[0], n))
        if name == "bool" and len(a) == 1:
            return PBool(self.truth(st, a[0], n))
        if name == "set" and not a:
            ad = self.alloc(st)
            st.heap.set("set.mem", z3.Store(st.heap.get("set.mem"), ad, z3.K(IntSort, z3.BoolVal(False))))
            return PRef("set", ad)
        if name == "type" and len(a) == 1:
            return PStr([], text="type:" + a[0].kind)
        raise OutOfSubset("call to %s" % name)

    def call_method(self, st, f, n):
        recv_node = f.value
        meth = f.attr
        # ''.join(strbuilder)
        if meth == "join" and isinstance(recv_node, ast.Constant) and recv_node.value == "":
            a = self.args(st, n)
            if isinstance(a[0], PRef) and a[0].cls == "strbuilder":
                return PRef("strbuilder", a[0].addr)     # the flat code-point sequence itself
            raise OutOfSubset("''.join of %s" % a[0].kind)
        dotted = dotted_name(f)
        if dotted and dotted in self.callees and dotted.split(".")[0] not in st.vars:
            # module-level function reached through its module (hashlib.sha256, os.path.splitext): by contract
            return self.apply_callee(st, self.callees[dotted], self.args(st, n, self.callees[dotted].params,
                                                                          getattr(self.callees[dotted], "none_defaults", False)), n)
        if meth == "join" and isinstance(recv_node, ast.Constant) and isinstance(recv_node.value, str):
            a = self.args(st, n)
            if isinstance(a[0], PRef) and a[0].cls == "list" and self.opt.get("elem_kind", {}).get("list") == "slice":
                # joining recorded slices: the text itself is not modelled; contracts speak about the list of slices
                return POpaque(self.fresh("joined"))
        recv = self.ev(st, recv_node)
        if meth in ("endswith", "startswith") and isinstance(recv, PStr) and recv.text is not None and len(n.args) == 1 and not n.keywords:
            a0 = self.ev(st, n.args[0])
            if isinstance(a0, PStr) and a0.text is not None:
                return PBool(getattr(recv.text, meth)(a0.text))       # both texts are constants
            raise OutOfSubset("str.%s with a non-constant argument" % meth)
        if isinstance(recv, PSeq) and meth == "find":
            a = self.args(st, n)
            if len(a) == 1 and isinstance(a[0], PStr) and len(a[0].codes) == 1 and recv.maxlen is not None:
                r = z3.IntVal(-1)
                for j in reversed(range(recv.maxlen)):
                    r = z3.If(z3.And(j < recv.ln, z3.Select(recv.arr, recv.off + j) == a[0].codes[0]), z3.IntVal(j), r)
                return PInt(r)
            raise OutOfSubset("str.find beyond a single character in a statically bounded slice")
        if meth == "encode" and isinstance(recv, PStr) and recv.text is None and len(n.args) == 1 \
                and isinstance(n.args[0], ast.Constant) and str(n.args[0].value).upper().replace("_", "-") in ("ISO-8859-1", "LATIN-1", "LATIN1"):
            # text.encode('ISO-8859-1'): one byte per character, UnicodeEncodeError above U+00FF
            for c in recv.codes:
                self.guard(st, "UnicodeEncodeError.latin1", z3.And(c >= 0, c <= 255), n)
            return PStr(list(recv.codes))
        if (meth in self.opt.get("uf_methods", ()) and isinstance(recv, PAny) and n.args and not n.keywords
                and all(isinstance(a_, ast.Constant) and isinstance(a_.value, str) for a_ in n.args)):
            # e.g. text.lstrip('+-') on an abstract string identity: an uninterpreted function of the identity per constant argument list
            tag = "_".join(a_.value.encode("utf-8").hex() for a_ in n.args)
            self.assumptions.add("str methods with constant arguments on abstract strings are uninterpreted functions of the string (%s)" % meth)
            return PAny(z3.Function("method_%s_%s" % (meth, tag), IntSort, IntSort)(recv.t))
        if meth in self.opt.get("uf_methods", ()) and isinstance(recv, PAny) and not n.args and not n.keywords:
            # e.g. text.lower() on an abstract string identity: an uninterpreted function of the identity
            return PAny(z3.Function("method_" + meth, IntSort, IntSort)(recv.t))
        if meth in self.opt.get("identity_methods", ()) and isinstance(recv, (PInt, PAny)):
            # e.g. text.encode("UTF-8") on an abstract string identity: the same identity (injective re-encoding)
            self.args(st, n)
            return recv
        key = None
        if isinstance(recv, PRef) and recv.cls.startswith("obj:"):
            key = "%s.%s" % (recv.cls[4:], meth)
        elif isinstance(recv, PRef) and ("%s.%s" % (recv.cls, meth)) in self.callees:
            key = "%s.%s" % (recv.cls, meth)
        if key and key in self.callees:
            return self.apply_callee(st, self.callees[key], [recv] + self.args(st, n, self.callees[key].params[1:]), n)
        if key and key in self.opt.get("inline", ()):
            return self.inline_call(st, key, [recv] + self.args(st, n), n)
        if key and self.opt.get("pure_query_methods") and meth.startswith(("has_", "is_", "may_", "can_")) and not n.args and not n.keywords:
            # parameterless predicate methods of opaque objects (node.has_constant_result(), type.is_...()): ASSUMED pure; an
            # uninterpreted boolean function of the receiver
            self.assumptions.add("parameterless has_*/is_*/may_*/can_* methods of opaque objects are pure queries (uninterpreted predicates)")
            return PBool(z3.Function("query_" + meth, IntSort, z3.BoolSort())(recv.addr))
        a = self.args(st, n)
        h = st.heap
        if isinstance(recv, PAny):
            # heap cell used as an object: decided by the method
            if meth in ("add", "update", "copy", "discard"):
                recv = PRef("set", recv.t)
            else:
                raise OutOfSubset("method %s on an untyped cell" % meth)
        if isinstance(recv, POpt):
            self.guard(st, "AttributeError.None", z3.Not(recv.is_none), n)
            recv = recv.ref
        if isinstance(recv, PRef) and recv.cls in ("list", "strbuilder", "bytelist"):
            ln = h.len(recv.addr)
            if meth == "append":
                v = a[0]
                if recv.cls == "bytelist":
                    # bytearray.append(v): ValueError unless 0 <= v < 256
                    self.guard(st, "ValueError.byte_range", z3.And(ival(v) >= 0, ival(v) < 256), n)
                if recv.cls == "strbuilder":
                    if not isinstance(v, PStr):
                        raise OutOfSubset("strbuilder.append of %s" % v.kind)
                    arr = h.els(recv.addr)
                    for i, c in enumerate(v.codes):
                        arr = z3.Store(arr, ln + i, c)
                    h.set("list.el", z3.Store(h.get("list.el"), recv.addr, arr))
                    h.set("list.len", z3.Store(h.get("list.len"), recv.addr, ln + len(v.codes)))
                else:
                    arr = z3.Store(h.els(recv.addr), ln, ival(v))
                    h.set("list.el", z3.Store(h.get("list.el"), recv.addr, arr))
                    h.set("list.len", z3.Store(h.get("list.len"), recv.addr, ln + 1))
                return PNone()
            if meth == "extend" and recv.cls == "list" and isinstance(a[0], PRef) and a[0].cls == "list":
                # lst.extend(other): other's elements appended in order
                ol, oa = h.len(a[0].addr), h.els(a[0].addr)
                mine = h.els(recv.addr)
                i = z3.Int("i!ext%d" % self.tick_id())
                na = z3.Lambda([i], z3.If(i < ln, z3.Select(mine, i), z3.Select(oa, i - ln)))
                h.set("list.el", z3.Store(h.get("list.el"), recv.addr, na))
                h.set("list.len", z3.Store(h.get("list.len"), recv.addr, ln + ol))
                return PNone()
            raise OutOfSubset("list method %s" % meth)
        if isinstance(recv, PRef) and recv.cls == "set":
            if meth == "add":
                s = z3.Store(h.memset(recv.addr), ival(a[0]), z3.BoolVal(True))
                h.set("set.mem", z3.Store(h.get("set.mem"), recv.addr, s))
                return PNone()
            if meth == "copy":
                ad = self.alloc(st)
                h.set("set.mem", z3.Store(h.get("set.mem"), ad, h.memset(recv.addr)))
                return PRef("set", ad)
            if meth == "update" and isinstance(a[0], PRef) and a[0].cls == "set":
                x = z3.Int("x!upd")
                u = z3.Lambda([x], z3.Or(z3.Select(h.memset(recv.addr), x), z3.Select(h.memset(a[0].addr), x)))
                h.set("set.mem", z3.Store(h.get("set.mem"), recv.addr, u))
                return PNone()
            raise OutOfSubset("set method %s" % meth)
        if isinstance(recv, PRef) and recv.cls == "dict":
            if meth == "get" and len(a) == 1:
                k = ival(a[0])
                kind = self.opt.get("dict_val_kind", "any")
                t = z3.If(h.has(recv.addr, k), h.val(recv.addr, k), z3.IntVal(NONE_ADDR))
                if kind.startswith("ref:"):
                    return POpt(z3.Not(h.has(recv.addr, k)), PRef(kind[4:], h.val(recv.addr, k)))
                return PAny(t)
            raise OutOfSubset("dict method %s" % meth)
        raise OutOfSubset("method %s on %s" % (meth, recv.kind))

    def inline_call(self, st, qualname, args, n):
        """execute the body of another function of the same module in place (real code, no contract needed);
        only for callees whose paths merge back into one state"""
        fn = find_function(self.tree, qualname)
        if fn is None:
            raise StaleContract("inlined callee %s not found" % qualname)
        fa = fn.args
        names = [a.arg for a in fa.posonlyargs + fa.args]
        if len(args) < len(names) and len(names) - len(args) <= len(fa.defaults):
            # trailing parameters take their (constant) defaults
            for d in fa.defaults[len(fa.defaults) - (len(names) - len(args)):]:
                args = list(args) + [self.ev(st, d)]
        if len(names) != len(args) or fa.vararg or fa.kwarg:
            raise OutOfSubset("inlined call to %s: argument shape" % qualname)
        saved_vars, saved_ann = st.vars, self.ann
        st.vars, self.ann = dict(zip(names, args)), {}
        base = len(st.path)
        outs = self.exec_block(st, fn.body)
        self.ann = saved_ann
        done = [(o[1], o[2] if o[0] == "return" else PNone()) for o in outs if o[0] in ("normal", "return")]
        if len(done) != len(outs):
            raise OutOfSubset("inlined callee %s raises / breaks" % qualname)
        states = self.try_merge([d[0] for d in done])
        if len(states) != 1:
            raise OutOfSubset("inlined callee %s does not merge into one state" % qualname)
        if len(done) > 1 and not all(isinstance(d[1], PNone) for d in done):
            raise OutOfSubset("inlined callee %s returns different values on different paths" % qualname)
        m = states[0]
        st.path, st.heap, st.vars = m.path, m.heap, saved_vars
        return done[0][1]

    def apply_callee(self, st, con, args, n):
        e = Env()
        for nm, a in zip(con.params, args):
            setattr(e, nm, arg_term(a))
        if len(args) > len(con.params):
            raise StaleContract("call to %s with %d args, contract has %d" % (con.name, len(args), len(con.params)))
        # fewer arguments: trailing parameters take their defaults (absent from e)
        h0 = st.heap.copy()
        e.h0 = e.h = h0
        for label, f in con.requires:
            self.oblige(st, "pre", "%s.%s" % (con.name, label), f(e), n)
        for exc, when in con.raises:
            # the callee raises `exc` when `when(e)`: an exception site of the caller (obligation unless its contract allows exc there)
            self.guard(st, exc, z3.Not(when(e)), n, note="raised by %s" % con.name)
        h1 = st.heap.copy()
        if con.modifies:
            for m in con.modifies(e):
                if m[0] == "list-append":
                    # append-only effect (the callee's own proved postcondition states: len grows, prefix unchanged);
                    # encoded in the havoc itself so that callers need no quantifier instantiation for the frame
                    ol = h1.len(m[1])
                    oa = h1.els(m[1])
                    nl, fa = self.fresh("len"), self.fresh("els", ARR_II)
                    st.path.append(nl >= ol)
                    i = z3.Int("i!app")
                    na = z3.Lambda([i], z3.If(i < ol, z3.Select(oa, i), z3.Select(fa, i)))
                    h1.set("list.len", z3.Store(h1.get("list.len"), m[1], nl))
                    h1.set("list.el", z3.Store(h1.get("list.el"), m[1], na))
                elif m[0] == "list":
                    nl, na = self.fresh("len"), self.fresh("els", ARR_II)
                    h1.set("list.len", z3.Store(h1.get("list.len"), m[1], nl))
                    h1.set("list.el", z3.Store(h1.get("list.el"), m[1], na))
                elif m[0] == "set":
                    ns = self.fresh("set", ARR_IB)
                    h1.set("set.mem", z3.Store(h1.get("set.mem"), m[1], ns))
                elif m[0] == "dict":
                    h1.set("dict.has", z3.Store(h1.get("dict.has"), m[1], self.fresh("dh", ARR_IB)))
                    h1.set("dict.val", z3.Store(h1.get("dict.val"), m[1], self.fresh("dv", ARR_II)))
                elif m[0] == "fld":
                    h1.set("fld." + m[1], z3.Store(h1.get("fld." + m[1]), m[2], self.fresh("f_" + m[1])))
                elif m[0] == "all-sets":
                    h1.set("set.mem", self.fresh("allsets", z3.ArraySort(IntSort, ARR_IB)))
                elif m[0] == "alloc":
                    old = h1.alloc if h1.alloc is not None else self.alloc_base(st, h1)
                    na = self.fresh("alloc")
                    st.path.append(na >= old)
                    h1.alloc = na
                else:
                    raise OutOfSubset("modifies kind %s" % (m[0],))
        e.h = h1
        rk = con.result_kind
        if callable(rk):
            res = rk(self, e)
        elif rk == "int":
            r = self.fresh(con.name + "_ret")
            e.result = r
            res = PInt(r)
        elif rk == "bool":
            r = self.fresh(con.name + "_ret", z3.BoolSort())
            e.result = r
            res = PBool(r)
        elif rk.startswith("ref:"):
            r = self.fresh(con.name + "_ret")
            e.result = r
            res = PRef(rk[4:], r)
        else:
            e.result = None
            res = PNone()
        st.heap = h1
        for label, f in con.ensures:
            st.path.append(f(e))
        return res

    def alloc_base(self, st, h):
        h.alloc = z3.Int("H0.alloc")
        st.path.append(h.alloc >= 0)
        return h.alloc

    # ---------------------------------------------------------------- statements
    def exec_block(self, st, stmts):
        outs = []
        live = [st]
        for s in stmts:
            nxt = []
            for cur in live:
                # a statement outside the subset is acceptable iff no state reaches it (same rule as guarded_block, so that
                # `if A: return .. elif B: <unmodelled>` and `if A: return ..` + `if B: <unmodelled>` are treated alike)
                n_obl = len(self.obligations)
                probe = cur.copy()
                try:
                    res = self.exec_stmt(cur, s)
                except OutOfSubset as e:
                    del self.obligations[n_obl:]
                    self.oblige(probe, "subset", "branch_with_unmodelled_construct_is_unreachable", False, s, note="statement contains: %s" % e)
                    continue
                for o in res:
                    if o[0] == "normal":
                        nxt.append(o[1])
                    else:
                        outs.append(o)
            live = self.try_merge(nxt)
            if not live:
                break
        outs.extend(("normal", s, None) for s in live)
        return outs

    def try_merge(self, states):
        if len(states) <= 1 or self.opt.get("merge") is False:
            return states
        out = [states[0]]
        for s in states[1:]:
            for k, o in enumerate(out):
                m = self.merge_two(o, s)
                if m is not None:
                    out[k] = m
                    break
            else:
                out.append(s)
        return out

    def merge_two(self, a, b):
        n = 0
        while n < len(a.path) and n < len(b.path) and a.path[n].eq(b.path[n]):
            n += 1
        if n >= len(a.path) or n >= len(b.path):
            return None
        ca, cb = a.path[n], b.path[n]
        if not (z3.Not(ca).eq(cb) or ca.eq(z3.Not(cb)) or z3.simplify(z3.Not(ca)).eq(z3.simplify(cb))):
            return None
        try:
            m = PState()
            m.path = list(a.path[:n])
            for extra in a.path[n + 1:]:
                m.path.append(z3.Implies(ca, extra))
            for extra in b.path[n + 1:]:
                m.path.append(z3.Implies(z3.Not(ca), extra))
            for k in set(a.vars) | set(b.vars):
                m.vars[k] = merge_val(ca, a.vars.get(k), b.vars.get(k))
            comps = {}
            for k in set(a.heap.c) | set(b.heap.c):
                x, y = a.heap.get(k), b.heap.get(k)
                comps[k] = x if x.eq(y) else z3.If(ca, x, y)
            al = a.heap.alloc if b.heap.alloc is None else b.heap.alloc if a.heap.alloc is None else (
                a.heap.alloc if a.heap.alloc.eq(b.heap.alloc) else z3.If(ca, a.heap.alloc, b.heap.alloc))
            m.heap = Heap(comps, al)
            return m
        except MergeFail:
            return None

    def exec_stmt(self, st, n):
        self.tick()
        m = getattr(self, "st_" + type(n).__name__, None)
        if m is None:
            raise OutOfSubset("statement %s (line %d)" % (type(n).__name__, n.lineno))
        return m(st, n)

    def st_FunctionDef(self, st, n):
        # nested function definitions are not executed; calls to them go through their contracts (callees)
        if n.name not in self.callees:
            raise OutOfSubset("nested function %s has no contract" % n.name)
        self.dropped.add("body of nested function %s (called through its contract)" % n.name)
        return [("normal", st, None)]

    def ev_Dict(self, st, n):
        if n.keys:
            raise OutOfSubset("non-empty dict display")
        a = self.alloc(st)
        h = st.heap
        h.set("dict.has", z3.Store(h.get("dict.has"), a, z3.K(IntSort, z3.BoolVal(False))))
        return PRef("dict", a)

    def st_Pass(self, st, n):
        return [("normal", st, None)]

    def st_Expr(self, st, n):
        if isinstance(n.value, ast.Constant):      # docstring / string statement: dropped
            self.dropped.add("string-literal statements (docstrings, commented-out code)")
            return [("normal", st, None)]
        self.ev(st, n.value)
        return [("normal", st, None)]

    def st_Return(self, st, n):
        v = self.ev(st, n.value) if n.value is not None else PNone()
        return [("return", st, v)]

    def st_Assert(self, st, n):
        c = self.truth(st, self.ev(st, n.test), n)
        self.guard(st, "AssertionError", c, n)
        return [("normal", st, None)]

    def st_Try(self, st, n):
        """try: body / except E: handler.  The body runs normally; `raise E` inside it reaches the matching handler.  Every
        handler is ALSO run from the state at entry of the try with the heap havocked and the names assigned in the body
        undefined - an over-approximation of 'some call in the body raised E at some point'."""
        if n.finalbody or n.orelse:
            raise OutOfSubset("try with finally / else")
        entry = st.copy()
        outs = []
        catches = set()
        for h in n.handlers:
            for x in ([h.type] if not isinstance(h.type, ast.Tuple) else list(h.type.elts)) if h.type is not None else []:
                if isinstance(x, ast.Name):
                    catches.add(x.id)
            if h.type is None:
                catches.add("Exception")
        frame = {"catches": catches, "raised": []}
        self.__dict__.setdefault("try_stack", []).append(frame)
        try:
            body_outs = self.exec_block(st, n.body)
        finally:
            self.try_stack.pop()
        for s2, exc in frame["raised"]:
            # implicit exception (KeyError, IndexError, ...) at a guarded site of the body: run the matching handler there
            h = [h for h in n.handlers if self._handler_matches(h, exc)][0]
            if h.name:
                raise OutOfSubset("except ... as name")
            outs.extend(self.exec_block(s2, h.body))
        implicit_only = set(catches) <= {"KeyError", "IndexError", "ZeroDivisionError", "AttributeError", "ValueError"}
        for o in body_outs:
            if o[0] == "raise" and any(self._handler_matches(h, o[2]) for h in n.handlers):
                h = [h for h in n.handlers if self._handler_matches(h, o[2])][0]
                outs.extend(self.exec_block(o[1], h.body))
            else:
                outs.append(o)
        for h in n.handlers:
            if implicit_only:
                break           # handlers for exceptions whose raise sites are all modelled (guards): no over-approximation needed
            if h.name:
                raise OutOfSubset("except ... as name")
            s2 = entry.copy()
            s2.heap = s2.heap.copy()
            for comp in list(s2.heap.c):
                s2.heap.set(comp, self.fresh("exc_" + comp.replace(".", "_"), s2.heap.get(comp).sort()))
            for nm in assigned_names(n.body):
                s2.vars.pop(nm, None)
            outs.extend(self.exec_block(s2, h.body))
        return outs

    def _handler_matches(self, h, excname):
        if h.type is None:
            return True
        names = [h.type] if not isinstance(h.type, ast.Tuple) else list(h.type.elts)
        return any(isinstance(x, ast.Name) and x.id in (excname, "Exception", "BaseException") for x in names)

    def st_Raise(self, st, n):
        name = "Exception"
        if n.exc is not None:
            e = n.exc
            if isinstance(e, ast.Call):
                e = e.func
            if isinstance(e, ast.Name):
                name = e.id
        return [("raise", st, name)]

    def annotation_type(self, ann):
        """cython.int -> 'int' etc.; other annotations are dropped"""
        if isinstance(ann, ast.Attribute) and isinstance(ann.value, ast.Name) and ann.value.id == "cython":
            return ann.attr
        return None

    def st_AnnAssign(self, st, n):
        if not isinstance(n.target, ast.Name):
            raise OutOfSubset("annotated non-name target")
        t = self.annotation_type(n.annotation)
        if t is not None:
            self.ann[n.target.id] = t
        else:
            self.dropped.add("non-cython type annotations")
        if n.value is None:
            if n.target.id not in st.vars:
                st.vars[n.target.id] = None
            return [("normal", st, None)]
        v = self.ev(st, n.value)
        self.assign_name(st, n.target.id, v, n)
        return [("normal", st, None)]

    def assign_name(self, st, name, v, node):
        lt = self.opt.get("local_types", {}).get(name)
        if lt and isinstance(v, PRef) and v.cls == "list":
            v = PRef(lt, v.addr)         # sidecar typing of a local container (e.g. a list used as a string builder)
        t = self.ann.get(name)
        if t == "bint":
            v = PBool(self.truth(st, v, node))
        elif t in CY_RANGES and isinstance(v, (PInt, PAny, PBool)):
            lo, hi = CY_RANGES[t]
            x = self.as_int(st, v, node)
            self.oblige(st, "range", "%s:cython.%s" % (name, t), z3.And(x >= lo, x <= hi), node,
                        note="typed local: the compiled module stores this value in a C %s" % t)
            v = PInt(x)
        st.vars[name] = v

    def st_Assign(self, st, n):
        v = self.ev(st, n.value)
        for tgt in n.targets:
            self.assign(st, tgt, v, n)
        return [("normal", st, None)]

    def assign(self, st, tgt, v, node):
        if isinstance(tgt, ast.Name):
            self.assign_name(st, tgt.id, v, node)
        elif isinstance(tgt, (ast.Tuple, ast.List)):
            if isinstance(v, PTuple):
                if len(v.items) != len(tgt.elts):
                    self.oblige(st, "exc", "ValueError.unpack", False, node)
                    raise OutOfSubset("tuple unpack arity")
                for t2, x in zip(tgt.elts, v.items):
                    self.assign(st, t2, x, node)
            elif isinstance(v, PRef) and v.cls in ("list", "tuple") and not any(isinstance(t2, ast.Starred) for t2 in tgt.elts):
                # a, b = <heap sequence>: ValueError unless it has exactly that many items
                self.guard(st, "ValueError.unpack", st.heap.len(v.addr) == len(tgt.elts), node)
                kind = self.opt.get("elem_kind", {}).get(v.cls, "any")
                for i, t2 in enumerate(tgt.elts):
                    self.assign(st, t2, self.cell_to_val(kind, st.heap.el(v.addr, i)), node)
            else:
                raise OutOfSubset("unpack of %s" % v.kind)
        elif isinstance(tgt, ast.Subscript):
            o = self.ev(st, tgt.value)
            h = st.heap
            if isinstance(tgt.slice, ast.Slice):
                self.slice_assign(st, o, tgt.slice, v, node)
                return
            idx = self.ev(st, tgt.slice)
            if isinstance(o, PRef) and o.cls == "list":
                i = self.as_int(st, idx, node)
                ln = h.len(o.addr)
                self.guard(st, "IndexError", z3.And(i >= -ln, i < ln), node)
                j = z3.If(i < 0, i + ln, i)
                h.set("list.el", z3.Store(h.get("list.el"), o.addr, z3.Store(h.els(o.addr), j, ival(v))))
            elif isinstance(o, PRef) and o.cls == "dict":
                k = ival(idx)
                h.set("dict.has", z3.Store(h.get("dict.has"), o.addr, z3.Store(z3.Select(h.get("dict.has"), o.addr), k, z3.BoolVal(True))))
                h.set("dict.val", z3.Store(h.get("dict.val"), o.addr, z3.Store(z3.Select(h.get("dict.val"), o.addr), k, ival(v))))
            else:
                raise OutOfSubset("subscript store on %s" % o.kind)
        elif isinstance(tgt, ast.Attribute):
            o = self.ev(st, tgt.value)
            if isinstance(o, POpt):
                # x.attr = v on an optional reference: AttributeError for None (an exception site), then the object's field
                self.guard(st, "AttributeError.None", z3.Not(o.is_none), node)
                o = o.ref
            if isinstance(o, PRef) and o.cls.startswith("obj:"):
                self.field_kind(o.cls, tgt.attr)
                st.heap.set("fld." + tgt.attr, z3.Store(st.heap.get("fld." + tgt.attr), o.addr, ival(v)))
            else:
                raise OutOfSubset("attribute store on %s" % o.kind)
        else:
            raise OutOfSubset("assignment target %s" % type(tgt).__name__)

    def slice_assign(self, st, o, sl, v, node):
        """lst[i:i] = [x, y]  (pure insertion)"""
        if not (isinstance(o, PRef) and o.cls == "list" and sl.step is None and sl.lower is not None and sl.upper is not None):
            raise OutOfSubset("slice assignment form")
        lo = self.as_int(st, self.ev(st, sl.lower), node)
        hi = self.as_int(st, self.ev(st, sl.upper), node)
        h = st.heap
        ln = h.len(o.addr)
        if not (isinstance(v, PRef) and v.cls == "list"):
            raise OutOfSubset("slice assignment value")
        k = z3.simplify(h.len(v.addr))
        if not z3.is_int_value(k):
            raise OutOfSubset("slice assignment of a list of unknown length")
        k = k.as_long()
        self.oblige(st, "subset", "insertion_slice(lo==hi, 0<=lo<=len)", z3.And(lo == hi, lo >= 0, lo <= ln), node)
        old = h.els(o.addr)
        src = h.els(v.addr)
        i = z3.Int("i!ins")
        new = z3.Lambda([i], z3.If(i < lo, z3.Select(old, i),
                                   z3.If(i < lo + k, z3.Select(src, i - lo), z3.Select(old, i - k))))
        h.set("list.el", z3.Store(h.get("list.el"), o.addr, new))
        h.set("list.len", z3.Store(h.get("list.len"), o.addr, ln + k))

    def st_AugAssign(self, st, n):
        op = self.OPS.get(type(n.op))
        if op is None:
            raise OutOfSubset("augmented operator")
        cur = self.ev(st, n.target)
        if isinstance(cur, PRef) and cur.cls == "tuple" and op == "+":
            r = self.ev_BinOp(st, ast.copy_location(ast.BinOp(left=n.target, op=n.op, right=n.value), n))
            self.assign(st, n.target, r, n)
            return [("normal", st, None)]
        v = self.ev(st, n.value)
        r = PInt(self.int_binop(st, op, self.as_int(st, cur, n), self.as_int(st, v, n), n))
        self.assign(st, n.target, r, n)
        return [("normal", st, None)]

    def st_If(self, st, n):
        c = z3.simplify(self.truth(st, self.ev(st, n.test), n))
        outs = []
        if not z3.is_false(c):
            s1 = st.copy()
            if not z3.is_true(c):
                s1.path.append(c)
            outs += self.guarded_block(s1, n.body, n)
        if not z3.is_true(c):
            s2 = st.copy()
            if not z3.is_false(c):
                s2.path.append(z3.Not(c))
            outs += self.guarded_block(s2, n.orelse, n) if n.orelse else [("normal", s2, None)]
        normals = self.try_merge([o[1] for o in outs if o[0] == "normal"])
        return [o for o in outs if o[0] != "normal"] + [("normal", s, None) for s in normals]

    def guarded_block(self, st, stmts, node):
        """a branch with a construct outside the subset is acceptable iff it is unreachable under the contract: that becomes
        an obligation of kind 'subset' (a failed one means UNDECIDED, never a violation)"""
        n_obl = len(self.obligations)
        probe = st.copy()
        try:
            return self.exec_block(st, stmts)
        except OutOfSubset as e:
            del self.obligations[n_obl:]
            self.oblige(probe, "subset", "branch_with_unmodelled_construct_is_unreachable", False, node, note="branch contains: %s" % e)
            return []

    # loops -----------------------------------------------------------------------------------
    def st_While(self, st, n):
        ordinal = self.loop_ordinal
        self.loop_ordinal += 1
        if n.orelse:
            raise OutOfSubset("while-else")
        inv = self.opt["invariants"].get(ordinal)
        if inv is not None:
            return self.loop_inv(st, n, ordinal, inv, lambda s: self.truth(s, self.ev(s, n.test), n), n.body, None)
        bound = self.opt["unroll"].get(ordinal)
        if bound is None:
            raise OutOfSubset("loop #%d (line %d) has neither an invariant nor an unroll bound" % (ordinal, n.lineno))
        outs, live = [], [st]
        for it in range(bound + 1):
            nxt = []
            for cur in live:
                c = z3.simplify(self.truth(cur, self.ev(cur, n.test), n))
                if not z3.is_true(c):
                    sx = cur.copy()
                    if not z3.is_false(c):
                        sx.path.append(z3.Not(c))
                    outs.append(("normal", sx, None))
                if z3.is_false(c):
                    continue
                if not z3.is_true(c):
                    cur.path.append(c)
                if it == bound:
                    self.oblige(cur, "unwind", "loop_bound_%d" % bound, False, n)
                    continue
                for o in self.exec_block(cur, n.body):
                    if o[0] in ("normal", "continue"):
                        nxt.append(o[1])
                    elif o[0] == "break":
                        outs.append(("normal", o[1], None))
                    else:
                        outs.append(o)
            live = self.try_merge(nxt)
            if not live:
                break
        return outs

    def st_For(self, st, n):
        ordinal = self.loop_ordinal
        self.loop_ordinal += 1
        if n.orelse:
            raise OutOfSubset("for-else")
        inv = self.opt["invariants"].get(ordinal)
        if (isinstance(n.iter, ast.Call) and isinstance(n.iter.func, ast.Attribute) and n.iter.func.attr == "items"
                and not n.iter.args and not n.iter.keywords):
            return self.for_dict_items(st, n, ordinal, inv)
        enum = (isinstance(n.iter, ast.Call) and isinstance(n.iter.func, ast.Name) and n.iter.func.id == "enumerate"
                and len(n.iter.args) == 1 and not n.iter.keywords)
        if (isinstance(n.iter, ast.Call) and isinstance(n.iter.func, ast.Name) and n.iter.func.id == "range"
                and 1 <= len(n.iter.args) <= 2 and not n.iter.keywords and isinstance(n.target, ast.Name)):
            return self.for_range(st, n, ordinal, inv)
        it = self.ev(st, n.iter.args[0] if enum else n.iter)
        if isinstance(it, POpt):
            self.guard(st, "TypeError.iterate_None", z3.Not(it.is_none), n)
            it = it.ref
        if isinstance(it, PRef) and it.cls == "set" and not enum:
            return self.for_set(st, n, ordinal, inv, it)
        if not (isinstance(it, PRef) and it.cls in ("list", "tuple")):
            raise OutOfSubset("for over %s" % it.kind)
        if inv is None:
            raise OutOfSubset("for loop #%d needs an invariant" % ordinal)
        # desugar: ghost index k; element assigned at the start of each iteration
        kname = "_k%d" % ordinal
        st.vars[kname] = PInt(0)
        elem_kind = self.opt.get("for_elem", {}).get(ordinal)
        if elem_kind is None and self.opt.get("elem_kind", {}).get("list", "any") != "any":
            lk = self.opt["elem_kind"]["list"]
            elem_kind = lambda ex, s, cell: ex.cell_to_val(lk, cell)  # noqa: E731

        def cond(s):
            return s.vars[kname].t < s.heap.len(it.addr)

        def pre_body(s):
            k = s.vars[kname].t
            cell = s.heap.el(it.addr, k)
            v = elem_kind(self, s, cell) if elem_kind else PAny(cell)
            self.assign(s, n.target, PTuple([PInt(k), v]) if enum else v, n)
            s.vars[kname] = PInt(k + 1)
        return self.loop_inv(st, n, ordinal, inv, cond, n.body, pre_body, extra_mod=[kname] + names_in_target(n.target))

    def for_range(self, st, n, ordinal, inv):
        """for i in range([lo,] hi): the bounds are evaluated once; ghost counter _k<n> (the target may be reassigned in the body);
        on exit the target keeps its last value (unassigned when the range is empty - then it keeps its old value)."""
        if inv is None:
            raise OutOfSubset("for loop #%d needs an invariant" % ordinal)
        bounds = [self.as_int(st, self.ev(st, x), n) for x in n.iter.args]
        lo, hi = (z3.IntVal(0), bounds[0]) if len(bounds) == 1 else bounds
        kname = "_k%d" % ordinal
        st.vars[kname] = PInt(lo)
        st.vars["_lo%d" % ordinal], st.vars["_hi%d" % ordinal] = PInt(lo), PInt(hi)

        def cond(s):
            return s.vars[kname].t < hi

        def pre_body(s):
            k = s.vars[kname].t
            self.assign(s, n.target, PInt(k), n)
            s.vars[kname] = PInt(k + 1)
        if n.target.id not in st.vars:
            st.vars[n.target.id] = PInt(self.fresh("unassigned_" + n.target.id))
        return self.loop_inv(st, n, ordinal, inv, cond, n.body, pre_body, extra_mod=[kname, n.target.id])

    def for_dict_items(self, st, n, ordinal, inv):
        """for k, v in d.items(): iteration order is arbitrary.  Ghost set $seen<n> of keys visited so far; each
        iteration picks an arbitrary unvisited key; the loop ends when every key has been visited.  (Mutation of d
        inside the loop would raise RuntimeError in CPython; the loop body must not store into d - checked
        syntactically for direct stores through the iterated expression.)"""
        d = self.ev(st, n.iter.func.value)
        if not (isinstance(d, PRef) and d.cls == "dict"):
            raise OutOfSubset("items() of %s" % d.kind)
        if inv is None:
            raise OutOfSubset("dict loop #%d needs an invariant" % ordinal)
        sname = "$seen%d" % ordinal
        st.vars[sname] = PGhost(z3.K(IntSort, z3.BoolVal(False)))
        kq = z3.Int("k!items%d" % ordinal)

        def cond(s):
            return z3.Exists([kq], z3.And(s.heap.has(d.addr, kq), z3.Not(z3.Select(s.vars[sname].t, kq))))

        def pre_body(s):
            k = self.fresh("key@loop%d" % ordinal)
            s.path.append(z3.And(s.heap.has(d.addr, k), z3.Not(z3.Select(s.vars[sname].t, k))))
            s.vars[sname] = PGhost(z3.Store(s.vars[sname].t, k, z3.BoolVal(True)))
            vkind = self.opt.get("dict_val_kind", "any")
            self.assign(s, n.target, PTuple([PAny(k), self.cell_to_val(vkind, s.heap.val(d.addr, k))]), n)
        return self.loop_inv(st, n, ordinal, inv, cond, n.body, pre_body, extra_mod=[sname] + names_in_target(n.target))

    def for_set(self, st, n, ordinal, inv, it):
        """for x in s (a set): the iteration order is arbitrary.  Ghost set $seen<n> of the members visited so far; each iteration
        picks an arbitrary unvisited member; the loop ends when every member has been visited.  CPython raises RuntimeError when
        the set changes size during the iteration: `the iterated set is unchanged` is added to the invariant as a clause."""
        if inv is None:
            raise OutOfSubset("set loop #%d needs an invariant" % ordinal)
        sname = "$seen%d" % ordinal
        st.vars[sname] = PGhost(z3.K(IntSort, z3.BoolVal(False)))
        xq = z3.Int("x!iter%d" % ordinal)
        a = it.addr

        def cond(s):
            return z3.Exists([xq], z3.And(s.heap.mem(a, xq), z3.Not(z3.Select(s.vars[sname].t, xq))))

        def pre_body(s):
            x = self.fresh("member@loop%d" % ordinal)
            s.path.append(z3.And(s.heap.mem(a, x), z3.Not(z3.Select(s.vars[sname].t, x))))
            s.vars[sname] = PGhost(z3.Store(s.vars[sname].t, x, z3.BoolVal(True)))
            self.assign(s, n.target, self.cell_to_val(self.opt.get("set_elem_kind", "any"), x), n)

        class _Inv:
            modifies_heap = getattr(inv, "modifies_heap", None)
            ghost_names = getattr(inv, "ghost_names", ())

            def holds(_, ex, s, s0):
                return list(inv.holds(ex, s, s0)) + [("the iterated set is unchanged (else RuntimeError)", s.heap.memset(a) == s0.heap.memset(a)),
                                                     ("only members have been visited",
                                                      z3.ForAll([xq], z3.Implies(z3.Select(s.vars[sname].t, xq), s.heap.mem(a, xq))))]
        w = _Inv()
        if hasattr(inv, "decreases"):
            w.decreases = inv.decreases
        if hasattr(inv, "ghost_init"):
            w.ghost_init = inv.ghost_init
        return self.loop_inv(st, n, ordinal, w, cond, n.body, pre_body, extra_mod=[sname] + names_in_target(n.target))

    def loop_inv(self, st, n, ordinal, inv, cond, body, pre_body, extra_mod=()):
        """inv: object with holds(ex, st, st0) -> [(label, Bool)], optional decreases(ex, st), optional
        modifies_heap (list of component names; default: all components touched syntactically = all)."""
        if hasattr(inv, "ghost_init"):
            inv.ghost_init(self, st)          # ghost state: lives in st.vars as PGhost, assigned only by ghost code
        st0 = st.copy()
        for label, f in inv.holds(self, st, st0):
            self.oblige(st, "inv", "entry.%s" % label, f, n)
        mod = assigned_names(body) | set(extra_mod) | set(getattr(inv, "ghost_names", ()))
        h = st.copy()
        for name in mod:
            old = h.vars.get(name)
            if old is None:
                continue
            h.vars[name] = self.havoc_val(old, name, ordinal)
        comps = getattr(inv, "modifies_heap", None)
        for cname in list(h.heap.c) if comps is None else [c for c in comps if c != "alloc"]:
            h.heap.set(cname, self.fresh("%s@loop%d" % (cname, ordinal), h.heap.get(cname).sort()))
        if (comps is None or "alloc" in comps) and h.heap.alloc is not None:
            na = self.fresh("alloc@loop%d" % ordinal)
            h.path.append(na >= h.heap.alloc)
            h.heap.alloc = na
        for label, f in inv.holds(self, h, st0):
            h.path.append(f)
        # typed locals stay inside their C range across iterations (they were checked at each assignment)
        for name in mod:
            t = self.ann.get(name)
            v = h.vars.get(name)
            if t in CY_RANGES and isinstance(v, PInt):
                lo, hi = CY_RANGES[t]
                h.path.append(z3.And(v.t >= lo, v.t <= hi))
        outs = []
        sx = h.copy()
        sx.path.append(z3.Not(cond(sx)))
        outs.append(("normal", sx, None))
        sb = h.copy()
        sb.path.append(cond(sb))
        m0 = inv.decreases(self, sb) if getattr(inv, "decreases", None) else None
        if pre_body:
            pre_body(sb)
        for o in self.exec_block(sb, body):
            if o[0] in ("normal", "continue"):
                s2 = o[1]
                if hasattr(inv, "ghost_step"):
                    inv.ghost_step(self, s2)
                for label, f in inv.holds(self, s2, st0):
                    self.oblige(s2, "inv", "step.%s" % label, f, n)
                if m0 is not None:
                    self.oblige(s2, "inv", "decreases", z3.And(inv.decreases(self, s2) < m0, m0 >= 0), n)
            elif o[0] == "break":
                outs.append(("normal", o[1], None))
            else:
                outs.append(o)
        return outs

    def havoc_val(self, old, name, ordinal):
        tag = "%s@loop%d" % (name, ordinal)
        if isinstance(old, PGhost):
            return PGhost(self.fresh(tag, old.t.sort()))
        if isinstance(old, PInt):
            return PInt(self.fresh(tag))
        if isinstance(old, PAny):
            return type(old)(self.fresh(tag))
        if isinstance(old, PBool):
            return PBool(self.fresh(tag, z3.BoolSort()))
        if isinstance(old, PRef):
            return PRef(old.cls, self.fresh(tag))
        if isinstance(old, PTuple):
            return PTuple([self.havoc_val(x, "%s.%d" % (name, i), ordinal) for i, x in enumerate(old.items)])
        if isinstance(old, PNone):
            return old
        raise OutOfSubset("loop-modified local %s of kind %s" % (name, old.kind))

    def st_Break(self, st, n):
        return [("break", st, None)]

    def st_Continue(self, st, n):
        return [("continue", st, None)]

    # ---------------------------------------------------------------- entry
    def run(self, st, args):
        fa = self.func.args
        plist = fa.posonlyargs + fa.args + ([fa.vararg] if fa.vararg else [])   # *args arrives as one sequence object
        names = [a.arg for a in plist]
        if len(names) != len(args):
            raise StaleContract("%s takes %d parameters, contract describes %d" % (self.qualname, len(names), len(args)))
        for a, v in zip(plist, args):
            t = self.annotation_type(a.annotation) if a.annotation is not None else None
            if t is not None:
                self.ann[a.arg] = t
            st.vars[a.arg] = v
        for d in self.func.decorator_list:
            self.dropped.add("decorator @%s" % ast.unparse(d))
        outs = self.exec_block(st, self.func.body)
        res = []
        for o in outs:
            if o[0] == "return":
                res.append(("return", o[1], o[2]))
            elif o[0] == "normal":
                res.append(("return", o[1], PNone()))
            elif o[0] == "raise":
                res.append(("raise", o[1], o[2]))
            else:
                raise OutOfSubset("stray %s" % o[0])
        return res

    def param_names(self):
        fa = self.func.args
        return [a.arg for a in fa.posonlyargs + fa.args + ([fa.vararg] if fa.vararg else [])]


def dotted_name(n):
    """a.b.c for an Attribute chain rooted in a Name, else None"""
    parts = []
    while isinstance(n, ast.Attribute):
        parts.append(n.attr)
        n = n.value
    if isinstance(n, ast.Name):
        parts.append(n.id)
        return ".".join(reversed(parts))
    return None


def arg_term(a):
    """value -> what contract lambdas see: Int/Bool term, address, tuple of those"""
    if isinstance(a, (PInt, PAny)):
        return a.t
    if isinstance(a, PRef):
        return a.addr
    if isinstance(a, PBool):
        return a.b
    if isinstance(a, PTuple):
        return tuple(arg_term(x) for x in a.items)
    if isinstance(a, PNone):
        return None
    if isinstance(a, PStr) and a.text is not None:
        return intern_id(a.text)       # a string constant: its abstract identity
    return a


def find_function(tree, qualname):
    parts = qualname.split(".")
    body = tree.body
    node = None
    for i, p in enumerate(parts):
        node = None
        for s in body:
            if isinstance(s, (ast.FunctionDef, ast.ClassDef)) and s.name == p:
                node = s
        if node is None:
            return None
        body = node.body
    return node if isinstance(node, ast.FunctionDef) else None


def assigned_names(stmts):
    out = set()

    class V(ast.NodeVisitor):
        def visit_Name(self, n):
            if isinstance(n.ctx, ast.Store):
                out.add(n.id)

        def visit_AugAssign(self, n):
            if isinstance(n.target, ast.Name):
                out.add(n.target.id)
            self.generic_visit(n)
    for s in stmts:
        V().visit(s)
    return out


def names_in_target(t):
    if isinstance(t, ast.Name):
        return [t.id]
    if isinstance(t, (ast.Tuple, ast.List)):
        r = []
        for e in t.elts:
            r += names_in_target(e)
        return r
    return []


def module_constants(tree, names=None):
    """constant-evaluate simple module-level assignments (maxint = 2**31-1 ...)"""
    out = {}
    for s in tree.body:
        tgt = val = None
        if isinstance(s, ast.Assign) and len(s.targets) == 1 and isinstance(s.targets[0], ast.Name):
            tgt, val = s.targets[0].id, s.value
        elif isinstance(s, ast.AnnAssign) and isinstance(s.target, ast.Name) and s.value is not None:
            tgt, val = s.target.id, s.value
        if tgt is None:
            continue
        try:
            v = eval(compile(ast.Expression(val), "<const>", "eval"), {"__builtins__": {}}, dict(out))
        except Exception:
            out.pop(tgt, None)      # rebound to something that is not a constant: no longer usable
            continue
        if isinstance(v, (int, str, bool)) or v is None:
            out[tgt] = v
        elif isinstance(v, (tuple, list)) and all(isinstance(x, (int, str, bool)) for x in v):
            out[tgt] = tuple(v)     # constant display of simple constants (used for membership tests)
    return out
