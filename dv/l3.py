"""L3: the C function the working-tree compiler emits for a catalogue .pyx function is the subject.

The catalogue text is compiled on every run with the compiler imported from /repo's sources; the
emitted `__pyx_f_<module>_<name>` function is taken out of the real generated .c with clang and
verified for all inputs, calling the utility helpers through their contracts.  CPython API calls
on the error path are stubs over a ghost error indicator `err`.
"""
import re
import z3

from . import cextract
from .cfe import CExec, Ptr, CV, node_type, parse_type, OutOfSubset, from_bool, MemObj
from .cunit import CUnit

ERRS = {"none": 0, "ZeroDivisionError": 1, "OverflowError": 2, "IndexError": 3, "ValueError": 4,
        "TypeError": 5, "UnboundLocalError": 6, "other": 99}


def ERR(name):
    return ERRS[name]


class CExecL3(CExec):
    def global_var(self, st, n):
        rd = n["referencedDecl"]
        name = rd.get("name", "")
        ty = node_type(rd) if rd.get("type") else node_type(n)
        if name.startswith("PyExc_"):
            return ("const", Ptr(ty, name, z3.IntVal(0)))
        if ty.kind == "array" and ty.count is not None:
            oname = "global:" + name
            if oname not in st.objs:
                st.objs[oname] = MemObj(oname, ty.pointee, z3.IntVal(ty.count))
            if oname not in st.mem:         # objs is shared between path states, mem and path are not
                rng = z3.IntSort()
                st.mem[oname] = z3.Const(oname + "@0", z3.ArraySort(z3.IntSort(), rng))
                self.const_table(st, name, oname, ty)
            return ("mem", Ptr(ty, oname, z3.IntVal(0)))
        raise OutOfSubset("global variable %s" % name)

    def const_table(self, st, name, oname, ty):
        """contents of a `static const` array initialised by a string literal.  The VarDecl must be part of the
        extracted AST (name in the unit's filter).  With options['table_facts'][name] = (fact(arr) -> formula,
        check(list of ints) -> bool) the structural fact is CHECKED against the literal here (every run) and assumed;
        without one the elements are asserted one by one."""
        decls = [d for d in self.nodes if d.get("kind") == "VarDecl" and d.get("name") == name and d.get("inner")]
        if not decls or "const" not in decls[-1].get("type", {}).get("qualType", ""):
            return
        lit = decls[-1]["inner"][0]
        while lit.get("kind") in ("ImplicitCastExpr", "ParenExpr", "InitListExpr") and lit.get("inner"):
            lit = lit["inner"][0]
        if lit.get("kind") != "StringLiteral":
            return
        import ast as _ast
        text = _ast.literal_eval(lit["value"])      # clang prints the literal in C syntax; these tables are plain ASCII
        vals = [ord(c) for c in text] + [0]
        vals = vals[:ty.count] + [0] * (ty.count - len(vals))
        arr = st.mem[oname]
        fact = (self.opt.get("table_facts") or {}).get(name)
        if fact is not None:
            # fact: dual-mode function k -> element k (dv.spec helpers).  Checked natively against every element of
            # the initialiser, then used as the closed form of the table (reads are bounds-checked separately).
            bad = [k for k in range(ty.count) if fact(k) != vals[k]]
            if bad:
                from .core import StaleContract
                raise StaleContract("the contract's closed form of table %s disagrees with its initialiser at index %d" % (name, bad[0]))
            k = z3.Int("k!" + name)
            st.mem[oname] = z3.Lambda([k], fact(k))
            self.assumptions.add("const table %s is used through the closed form stated by the contract; the closed form is "
                                 "checked against all %d elements of the initialiser on every run" % (name, ty.count))
        else:
            for i, v in enumerate(vals):
                st.path.append(z3.Select(arr, i) == v)

    def call(self, st, name, argn, n):
        if name in ("PyErr_SetString", "PyErr_Format", "PyErr_SetObject", "PyErr_SetNone"):
            args = [self.ev(st, a) for a in argn]
            exc = args[0]
            if not isinstance(exc, Ptr) or not str(exc.obj).startswith("PyExc_"):
                raise OutOfSubset("%s with a non-constant exception class" % name)
            code = ERRS.get(exc.obj[len("PyExc_"):], ERRS["other"])
            self.assumptions.add("%s(exc, ...) sets the thread's error indicator to exc (CPython API contract)" % name)
            st.err = z3.IntVal(code)
            if name == "PyErr_Format":
                return Ptr(node_type(n), None, z3.IntVal(0))
            return None
        if name in ("PyGILState_Ensure", "PyGILState_Release"):
            for a in argn:
                self.ev(st, a)
            self.assumptions.add("PyGILState_Ensure/Release do not touch the error indicator or any modelled memory")
            ty = node_type(n)
            if ty.is_int():
                t = self.fresh("gilstate")
                st.path.append(z3.And(t >= ty.min, t <= ty.max))
                return CV(ty, t)
            return None
        if name in ("__Pyx_AddTraceback", "__Pyx_WriteUnraisable", "__Pyx_RefNannyFinishContextNogil"):
            for a in argn:
                self.ev(st, a)
            self.assumptions.add("%s does not change the error indicator (traceback bookkeeping only)" % name)
            return None
        if name == "PyErr_Occurred":
            b = st.err != 0
            return from_bool(b, parse_type("long"))
        return CExec.call(self, st, name, argn, n)


def strip_v(nm):
    return nm[len("__pyx_v_"):] if nm.startswith("__pyx_v_") else nm


_compiled = {}


def compiled(pyx_text, directives=None, modname="dvcat"):
    key = (pyx_text, tuple(sorted((directives or {}).items())), modname)
    if key not in _compiled:
        ctext, cfile = cextract.compile_pyx(pyx_text, name=modname, directives=directives)
        _compiled[key] = ctext
    return _compiled[key]


def find_cdef(ctext, pyname, modname="dvcat"):
    m = re.search(r"\b(__pyx_f_\d+%s_%s)\s*\(" % (re.escape(modname), re.escape(pyname)), ctext)
    if not m:
        return None
    return m.group(1)


class L3Unit(CUnit):
    """cdef function `pyname` of catalogue text `pyx`."""

    def __init__(self, uid, props, pyx, pyname, directives=None, **kw):
        self.pyx, self.pyname, self.directives = pyx, pyname, directives
        self._fname = None

        def tu():
            ctext = compiled(self.pyx, self.directives)
            return ctext, ("module route: catalogue function %r compiled by the working-tree compiler; "
                           "function taken from the generated C file" % pyname)
        CUnit.__init__(self, uid, props, fname=None, tu=tu, **kw)
        self.exec_cls = CExecL3
        self.rename = strip_v
        self.err_ghost = True
        self.subject.setdefault("file", "generated C of catalogue function (Cython/Compiler/ExprNodes.py, Nodes.py code generation)")
        self.subject["catalogue_source"] = pyx_function_source(pyx, pyname)

    def _prepare(self):
        ctext, route = self.tu()
        fname = find_cdef(ctext, self.pyname)
        if fname is None:
            from .core import StaleContract
            raise StaleContract("no __pyx_f_*_%s function in the generated module" % self.pyname)
        self.fname = fname
        self.filt = fname
        path = cextract.write_tu(ctext)
        nodes = cextract.clang_ast(path, self.filt, self.defines)
        ftext = cextract.function_text(ctext, fname) or ""
        return ctext, route, path, nodes, ftext


def pyx_function_source(pyx, pyname):
    lines = pyx.splitlines()
    out, on = [], False
    for i, l in enumerate(lines):
        if re.match(r"\s*(cdef|cpdef|def)\b.*\b%s\s*\(" % re.escape(pyname), l):
            j = i
            while j > 0 and lines[j - 1].lstrip().startswith("@"):
                j -= 1
            out = lines[j:i + 1]
            on = True
            continue
        if on:
            if l.strip() == "" or l.startswith((" ", "\t")):
                out.append(l)
            else:
                break
    return "\n".join(out).strip()


# ------------------------------------------------------------------------------ native replay of L3

_RUNNER = r'''
import sys, json
sys.path.insert(0, %(dir)r)
import %(mod)s as m
f = getattr(m, "py_" + %(name)r)
for line in sys.stdin:
    args = json.loads(line)
    try:
        r = f(*args)
        print("result=%%d" %% r, flush=True)
    except BaseException as e:
        print("exc=%%s" %% type(e).__name__, flush=True)
'''


def _wrapper_text(pyx, pyname, nparams):
    names = ", ".join("a%d" % i for i in range(nparams))
    return pyx.rstrip("\n") + "\n\ndef py_%s(%s):\n    return %s(%s)\n" % (pyname, names, pyname, names)


def _l3_run_native_batch(self, cases, sanitize=False):
    import json
    import os
    import subprocess
    nparams = len(self._ptypes)
    modname = "dvrep"
    text = _wrapper_text(self.pyx, self.pyname, nparams)
    ctext, cfile = cextract.compile_pyx(text, name=modname, directives=self.directives)
    d = os.path.dirname(cfile)
    so = os.path.join(d, modname + ".so")
    cmd = ["clang", "-shared", "-fPIC", "-O0", "-w", "-I" + cextract.PY_INCLUDE]
    if sanitize:
        cmd += ["-fsanitize=undefined", "-fsanitize-trap=undefined"]
    cmd += [cfile, "-o", so]
    p = subprocess.run(cmd, capture_output=True, text=True)
    if p.returncode != 0:
        return {"build_error": p.stderr[-2000:]}
    script = _RUNNER % {"dir": d, "mod": modname, "name": self.pyname}
    inp = "".join(json.dumps(list(c)) + "\n" for c in cases)
    try:
        r = subprocess.run(["/venv/bin/python", "-c", script], input=inp, capture_output=True, text=True, timeout=120)
    except subprocess.TimeoutExpired:
        return {"build_error": "timeout"}
    results = []
    for line in r.stdout.splitlines():
        k, v = line.split("=", 1)
        if k == "result":
            results.append({"result": int(v), "err": 0})
        else:
            results.append({"result": None, "err": ERRS.get(v, ERRS["other"]), "exc": v})
    while len(results) < len(cases):
        results.append(None)
    return {"results": results, "exit": r.returncode, "stderr": r.stderr[-800:]}


def _l3_run_native(self, vals, sanitize=False):
    case = tuple(vals[nm] for nm, _ in self._ptypes)
    outs = self.run_native_batch([case], sanitize)
    if "build_error" in outs:
        return outs
    r = outs["results"][0]
    out = {"exit": outs["exit"], "stderr": outs["stderr"]}
    if r is None:
        if out["exit"] == 0:
            out["exit"] = -1
        return out
    out.update(r)
    out["exit"] = 0
    return out


L3Unit.run_native_batch = _l3_run_native_batch
L3Unit.run_native = _l3_run_native
