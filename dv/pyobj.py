"""Abstract CPython object model for C subjects that handle PyObject* (DESIGN.md 3.2).

Objects are identities (positive integers) behind pointers `Ptr(ty, "pyobj", id)`; what the C code can
observe goes through uninterpreted functions:
    is_type(id, T)        Py_IS_TYPE(o, &PyT_Type)               (exact type test)
    intval(id)            mathematical value of an exact int
    lv_tag(id), digit(id, i)   CPython 3.12 PyLongObject internals
    fval(id)              value of an exact float (Float64)
ASSUMED (listed in every evidence file that uses this module):
  * the PyLong representation contract of CPython 3.12 (`REP`): lv_tag = ndigits << 3 | sign bits
    (0 positive, 1 zero, 2 negative), 30-bit digits, top digit non-zero, |intval| = sum digit_i * 2^(30 i);
  * the documented contracts of the C-API functions stubbed in `CExecPyObj.call` (PyLong_FromLong returns an
    exact int with that value, PyLong_AsSsize_t returns the value or -1 with OverflowError, ...);
  * allocation never fails (NULL results of constructors are not modelled); reference counts are not modelled
    (Py_INCREF / Py_DECREF are no-ops for the value model) - see C35 (not applicable).
"""
import z3

from .cfe import CV, Ptr, node_type, parse_type, OutOfSubset, from_bool, as_bool
from .l3 import CExecL3, ERRS

I = z3.IntSort()
B = z3.BoolSort()
is_long = z3.Function("is_exact_long", I, B)
is_float = z3.Function("is_exact_float", I, B)
is_typ = z3.Function("is_exact_type", I, I, B)
intval = z3.Function("intval", I, I)
lv_tag = z3.Function("lv_tag", I, I)
digit = z3.Function("digit", I, I, I)
is_long_sub = z3.Function("is_int_subclass", I, B)      # Py_TPFLAGS_LONG_SUBCLASS of the object's type
fval = z3.Function("fval", I, z3.Float64())             # value of an exact float object
is_list = z3.Function("is_exact_list", I, B)
is_tuple = z3.Function("is_exact_tuple", I, B)
seq_len = z3.Function("seq_len", I, I)                  # Py_SIZE of a list / tuple
item = z3.Function("item", I, I, I)                     # identity of element i of a list / tuple
exact_type = z3.Function("exact_type_id", I, I)           # identity of Py_TYPE(o) among the builtin types tested with Py*_CheckExact
TYPE_IDS = {"PyLong_Type": 1, "PyFloat_Type": 2, "PyUnicode_Type": 3, "PyBytes_Type": 4, "PyByteArray_Type": 5, "PyList_Type": 6,
            "PyTuple_Type": 7, "PyDict_Type": 8, "PySet_Type": 9, "PyFrozenSet_Type": 10, "PyBool_Type": 11}
is_bytes_sub = z3.Function("is_bytes_or_subclass", I, B)   # Py_TPFLAGS_BYTES_SUBCLASS of the object's type
blen = z3.Function("bytes_len", I, I)                      # Py_SIZE of a bytes object
bytes_of = z3.Function("bytes_of", I, z3.ArraySort(I, I))  # ob_sval[0..len] as (signed) chars
richcmp_obj = z3.Function("richcmp_obj", I, I, I, I)        # PyObject_RichCompare(a, b, op): CPython's result object (0 = NULL)
NONE_OBJECT = z3.Int("Py_None_object")                     # identity of None (units with the option model_none)
truth_of = z3.Function("truth_of", I, I)                    # PyObject_IsTrue(x): 1 / 0 / -1
is_module_string_constant = z3.Function("is_module_string_constant", I, B)
list_allocated = z3.Function("list_allocated", I, I)   # PyListObject.allocated (slots of ob_item)
pow2u = z3.Function("pow2", I, I)          # 2**n for n beyond what the C code computes itself
generic = z3.Function("generic_result", I, I, I, I, I, B)   # generic_result(opcode, a, b, c, r): r = CPython's own result

PYLONG_SHIFT = 30
OPCODES = {"pow": 1, "ipow": 1, "lshift": 2, "add": 3, "sub": 4, "mul": 5, "floordiv": 6, "mod": 7, "and": 8, "or": 9, "xor": 10,
           "rshift": 11, "truediv": 12, "richcmp": 13, "getitem": 14, "index": 15, "long": 16, "setitem": 17, "delitem": 18, "methodcall": 19, "list_append": 20, "contains": 21}


PYNUMBER = {"Add": "add", "Subtract": "sub", "Multiply": "mul", "FloorDivide": "floordiv", "Remainder": "mod", "And": "and", "Or": "or",
            "Xor": "xor", "Lshift": "lshift", "Rshift": "rshift", "TrueDivide": "truediv", "Power": "pow"}
NB_SLOTS = {"nb_add": "add", "nb_subtract": "sub", "nb_multiply": "mul", "nb_floor_divide": "floordiv", "nb_remainder": "mod", "nb_and": "and",
            "nb_or": "or", "nb_xor": "xor", "nb_lshift": "lshift", "nb_rshift": "rshift", "nb_true_divide": "truediv"}


def rep(o):
    """PyLong representation contract for object id o (CPython 3.12 longintrepr.h)"""
    tag = lv_tag(o)
    sgn = tag % 4
    nd = tag / 8
    d = lambda i: digit(o, i)  # noqa: E731
    mag = z3.If(intval(o) >= 0, intval(o), -intval(o))
    B30 = 1 << PYLONG_SHIFT
    exact = z3.And(
        # zero: no digits counted, and ob_digit[0] == 0 (zero objects are the small-int singleton or come from
        # zero-initialised tp_alloc memory) - Cython's unsigned compact path reads ob_digit[0] directly
        z3.Implies(nd == 0, z3.And(mag == 0, d(0) == 0)),
        z3.Implies(nd == 1, mag == d(0)),
        z3.Implies(nd == 2, mag == d(0) + d(1) * B30),
        z3.Implies(nd == 3, mag == d(0) + d(1) * B30 + d(2) * B30 * B30),
        z3.Implies(nd == 4, mag == d(0) + d(1) * B30 + d(2) * B30 * B30 + d(3) * B30 * B30 * B30),
        # positional notation: the least significant digit is the magnitude modulo the base (any digit count)
        z3.Implies(nd >= 1, mag % B30 == d(0)),
        z3.Implies(nd >= 3, mag >= B30 * B30), z3.Implies(nd >= 4, mag >= B30 * B30 * B30),
        z3.Implies(nd >= 5, mag >= B30 * B30 * B30 * B30))
    i = z3.Int("i!rep")
    return z3.Implies(is_long(o), z3.And(
        tag >= 0, tag < 2 ** 63, sgn != 3, nd >= 0, (tag / 4) % 2 == 0,
        (sgn == 1) == (intval(o) == 0), (sgn == 0) == (intval(o) > 0), (sgn == 2) == (intval(o) < 0),
        (nd == 0) == (intval(o) == 0),
        z3.ForAll([i], z3.And(digit(o, i) >= 0, digit(o, i) < B30)),
        z3.Implies(nd >= 1, d(nd - 1) != 0), exact))


class CExecPyObj(CExecL3):
    """C executor with the abstract object model and C-API stubs."""

    def obj(self, st, ty=None, base="o"):
        """fresh object identity"""
        t = self.fresh(base)
        st.path.append(t >= 1)
        return Ptr(ty or parse_type("PyObject *"), "pyobj", t)

    def oid(self, v):
        if isinstance(v, Ptr) and v.obj == "pyobj":
            return v.off
        raise OutOfSubset("expected a modelled Python object")

    def use_rep(self, st, o):
        key = ("rep", o.get_id())
        if key not in self.__dict__.setdefault("_rep_done", set()):
            self._rep_done.add(key)
            self.assumptions.add("CPython 3.12 PyLongObject representation contract (lv_tag = ndigits<<3 | sign, 30-bit digits)")
            st.path.append(rep(o))

    # -- pointers to globals such as &PyLong_Type --------------------------------------------------------------
    def global_var(self, st, n):
        rd = n["referencedDecl"]
        name = rd.get("name", "")
        if name.startswith("PyExc_"):
            return CExecL3.global_var(self, st, n)
        if name == "_Py_NoneStruct" and self.opt.get("model_none"):
            # opt-in: None is an object identity like any other, so that an argument MAY be None (`x == Py_None` is then decided by the
            # identities, not by the kind of pointer); without the option an object argument is never None (kernel of those units)
            st.path.append(NONE_OBJECT >= 1)
            return ("const", Ptr(node_type(n), "pyobj", NONE_OBJECT))
        if name.endswith("_Type") or name.startswith("_Py_") or name.startswith("Py"):
            ty = node_type(n)
            return ("const", Ptr(ty, "global:" + name, z3.IntVal(0)))
        return CExecL3.global_var(self, st, n)

    def ev_UnaryOperator(self, st, n):
        if n["opcode"] == "&":
            sub = n["inner"][0]
            while sub["kind"] == "ParenExpr":
                sub = sub["inner"][0]
            if sub["kind"] == "DeclRefExpr" and sub["referencedDecl"]["id"] not in st.vars:
                lv = self.lval(st, sub)
                if lv[0] == "const" and isinstance(lv[1], Ptr):
                    return Ptr(node_type(n), lv[1].obj, lv[1].off)
        return CExecL3.ev_UnaryOperator(self, st, n)

    # -- PyLongObject internals --------------------------------------------------------------------------------
    def member_lval(self, st, n):
        chain = []
        x = n
        while x["kind"] == "MemberExpr":
            chain.append(x["name"])
            arrow = x.get("isArrow")
            x = x["inner"][0]
            if arrow:
                break
        base = self.ev(st, x)
        if isinstance(base, Ptr) and base.obj == "pyobj":
            path = ".".join(reversed(chain))
            o = base.off
            if path == "long_value.lv_tag":
                self.use_rep(st, o)
                return ("const", CV(node_type(n), lv_tag(o)))
            if path == "long_value.ob_digit":
                self.use_rep(st, o)
                return ("mem", Ptr(node_type(n), ("pydigits", o), z3.IntVal(0)))
            if path == "allocated":
                return ("const", CV(node_type(n), self.allocated(st, o)))
            if path == "ob_fval":
                self.assumptions.add("PyFloat_AS_DOUBLE(o) (ob_fval) is the value of the float object")
                return ("const", CV(node_type(n), fval(o)))
            if path == "ob_item":
                # PyListObject.ob_item (PyObject **) / PyTupleObject.ob_item (PyObject *[1]): the element array
                kind = "mem" if node_type(n).kind == "array" else "const"
                return (kind, Ptr(node_type(n), ("pyitems", o), z3.IntVal(0)))
            raise OutOfSubset("object field %s" % path)
        return CExecL3.member_lval(self, st, n)

    def lval(self, st, n):
        if n.get("kind") == "ArraySubscriptExpr" and len(n.get("inner", [])) == 2:
            b = n["inner"][0]
            while b.get("kind") in ("ImplicitCastExpr", "ParenExpr") and b.get("inner"):
                b = b["inner"][0]
            i = n["inner"][1]
            while i.get("kind") in ("ImplicitCastExpr", "ParenExpr") and i.get("inner"):
                i = i["inner"][0]
            if b.get("kind") == "MemberExpr" and b.get("name") == "__pyx_string_tab" and i.get("kind") == "IntegerLiteral":
                # a string constant of the module: an object identity per table slot, marked as a module constant
                t = z3.Int("module_string_constant_%s" % i.get("value"))
                st.path.append(z3.And(t >= 1, is_module_string_constant(t)))
                self.assumptions.add("__pyx_string_tab[K]: the module's interned string constants are live str objects (one identity per slot)")
                return ("const", Ptr(node_type(n), "pyobj", t))
            if b.get("kind") == "MemberExpr" and b.get("name") == "__pyx_number_tab" and i.get("kind") == "IntegerLiteral":
                t = z3.Int("module_number_constant_%s" % i.get("value"))
                st.path.append(t >= 1)
                self.assumptions.add("__pyx_number_tab[K]: the module's numeric constants are live objects (one identity per slot)")
                return ("const", Ptr(node_type(n), "pyobj", t))
        return CExecL3.lval(self, st, n)

    ghost_objs = {}

    def gkey(self, kind, o):
        key = "%s[%s]" % (kind, o)
        self.ghost_objs[key] = o            # (class-level: inlined calls run in a copy of the executor)
        return key

    def mem_default(self, key):
        import re as _re
        m = _re.match(r"(listsize|listitems|liststore|liststores)\[(.*)\]$", key)
        if not m:
            return None
        o = getattr(self, "ghost_objs", {}).get(key)
        if o is None:
            return None
        i = z3.Int("i!dflt")
        return {"listsize": lambda: seq_len(o), "listitems": lambda: z3.Lambda([i], item(o, i)),
                "liststore": lambda: z3.K(I, z3.IntVal(0)), "liststores": lambda: z3.IntVal(0)}[m.group(1)]()

    def allocated(self, st, o):
        """PyListObject.allocated: the number of slots of ob_item; only `>= ob_size` is known about it"""
        self.assumptions.add("PyListObject.allocated >= ob_size (CPython list invariant)")
        al = list_allocated(o)
        st.path.append(z3.And(al >= seq_len(o), al < 2 ** 62))
        return al

    def load(self, st, p, node):
        if isinstance(p, Ptr) and isinstance(p.obj, tuple) and p.obj[0] == "pyitems":
            o = p.obj[1]
            st.path.append(seq_len(o) >= 0)
            # memory safety of the direct element access (what boundscheck / wraparound must guarantee)
            self.oblige(st, "ub", "oob_read.ob_item", z3.And(p.off >= 0, p.off < seq_len(o)), node)
            key = "listitems[%s]" % o
            r = z3.Select(st.mem[key], p.off) if key in st.mem else item(o, p.off)
            st.path.append(item(o, p.off) >= 1)
            return Ptr(parse_type("PyObject *"), "pyobj", r)
        if isinstance(p, Ptr) and isinstance(p.obj, tuple) and p.obj[0] == "pydigits":
            o = p.obj[1]
            nd = lv_tag(o) / 8
            # ob_digit has max(ndigits, 1) elements
            self.oblige(st, "ub", "oob_read.ob_digit", z3.And(p.off >= 0, z3.Or(p.off < nd, p.off == 0)), node)
            d = digit(o, p.off)
            st.path.append(z3.And(d >= 0, d < (1 << PYLONG_SHIFT)))     # instance of the representation contract
            return CV(parse_type("unsigned int"), d)
        return CExecL3.load(self, st, p, node)

    def read_lval(self, st, lv, node):
        if lv[0] == "mem" and isinstance(lv[1], Ptr) and isinstance(lv[1].obj, tuple):
            if lv[1].obj[0] in ("pydigits", "pyitems") and node_type(node).kind == "array":
                return lv[1]
            return self.load(st, lv[1], node)
        return CExecL3.read_lval(self, st, lv, node)

    # -- C-API stubs -------------------------------------------------------------------------------------------
    def call(self, st, name, argn, n):
        ty = node_type(n) if n.get("type") else None
        if name == "Py_IS_TYPE":
            o = self.ev(st, argn[0])
            t = self.ev(st, argn[1])
            oid = self.oid(o)
            tn = t.obj if isinstance(t, Ptr) else None
            st.path.append(z3.Not(z3.And(is_long(oid), is_float(oid))))      # an object has one exact type
            # Py_TYPE(o) is one type: the exact-type predicates are views of one function
            st.path.append(z3.And(is_long(oid) == (exact_type(oid) == TYPE_IDS["PyLong_Type"]),
                                  is_float(oid) == (exact_type(oid) == TYPE_IDS["PyFloat_Type"])))
            if tn == "global:PyList_Type":
                st.path.append(is_list(oid) == (exact_type(oid) == TYPE_IDS["PyList_Type"]))
                return from_bool(is_list(oid), ty)
            if tn == "global:PyTuple_Type":
                st.path.append(is_tuple(oid) == (exact_type(oid) == TYPE_IDS["PyTuple_Type"]))
                return from_bool(is_tuple(oid), ty)
            if tn == "global:PyLong_Type":
                return from_bool(is_long(oid), ty)
            if tn == "global:PyFloat_Type":
                return from_bool(is_float(oid), ty)
            if tn and tn.startswith("global:") and tn[7:] in TYPE_IDS:
                return from_bool(exact_type(oid) == TYPE_IDS[tn[7:]], ty)
            raise OutOfSubset("Py_IS_TYPE against %s" % tn)
        if name in ("PyList_GET_SIZE", "PyTuple_GET_SIZE", "Py_SIZE"):
            o = self.oid(self.ev(st, argn[0]))
            if self.opt.get("model_none"):
                # (units in which an argument MAY be None: the macro reads ob_size of whatever it is given)
                self.oblige(st, "pre", "%s.argument_is_not_None" % name, o != NONE_OBJECT, n)
            st.path.append(z3.And(seq_len(o) >= 0, seq_len(o) < 2 ** 62))
            self.assumptions.add("%s(o) is the number of elements of the list/tuple (0 <= size, far below PY_SSIZE_T_MAX)" % name)
            key = "listsize[%s]" % o
            return CV(ty, st.mem[key] if key in st.mem else seq_len(o))
        if name in ("Py_SET_SIZE", "__Pyx_SET_SIZE"):
            o = self.oid(self.ev(st, argn[0]))
            v = self.ev(st, argn[1])
            # the allocation is not changed: the new size must stay inside what was allocated for the original size
            self.oblige(st, "ub", "Py_SET_SIZE.within_allocation", z3.And(v.t >= 0, v.t <= self.allocated(st, o)), n)
            st.mem[self.gkey("listsize", o)] = v.t
            self.assumptions.add("Py_SET_SIZE(o, n) sets ob_size (ghost state per object; seq_len(o) stays the size at entry)")
            return None
        if name.startswith("__Pyx_CallUnboundCMethod") or name in ("__Pyx__PyObject_PopIndex", "__Pyx__PyObject_PopNewIndex"):
            args = [self.ev(st, a) for a in (argn[1:] if name.startswith("__Pyx_CallUnboundCMethod") else argn)]
            ids = [self.oid(a) for a in args if isinstance(a, Ptr) and a.obj == "pyobj"]
            while len(ids) < 3:
                ids.append(z3.IntVal(0))
            r = self.obj(st, ty, "generic")
            st.path.append(generic(z3.IntVal(OPCODES["methodcall"]), ids[0], ids[1], ids[2], r.off))
            e2 = self.fresh("err_after_call")
            st.err = e2
            self.assumptions.add("calls of CPython's own methods (list.pop, ...) return CPython's own result")
            return r
        if name.startswith("__Pyx_GetItemInt_Generic"):
            return self.generic_call(st, "getitem", argn, n)
        if name == "Py_TYPE":
            o = self.oid(self.ev(st, argn[0]))
            return Ptr(ty, ("typeof", o), z3.IntVal(0))
        if name == "PyType_HasFeature":
            t = self.ev(st, argn[0])
            f = self.ev(st, argn[1])
            if isinstance(t, Ptr) and isinstance(t.obj, tuple) and t.obj[0] == "typeof" and z3.is_int_value(f.t) \
                    and f.t.as_long() == (1 << 27):
                o = t.obj[1]
                st.path.append(z3.Implies(exact_type(o) == TYPE_IDS["PyBytes_Type"], is_bytes_sub(o)))
                return from_bool(is_bytes_sub(o), ty)
            if isinstance(t, Ptr) and isinstance(t.obj, tuple) and t.obj[0] == "typeof" and z3.is_int_value(f.t) \
                    and f.t.as_long() == (1 << 24):
                o = t.obj[1]
                st.path.append(z3.Implies(is_long(o), is_long_sub(o)))
                return from_bool(is_long_sub(o), ty)
            raise OutOfSubset("PyType_HasFeature")
        if name == "_PyLong_CompactValue":
            o = self.oid(self.ev(st, argn[0]))
            self.use_rep(st, o)
            self.assumptions.add("_PyLong_CompactValue(op) == (1 - (lv_tag & 3)) * ob_digit[0]  (CPython 3.12 inline helper)")
            return CV(ty, (1 - lv_tag(o) % 4) * digit(o, 0))
        if name in ("PyLong_AsUnsignedLong", "PyLong_AsUnsignedLongLong", "PyLong_AsLongLong"):
            o = self.oid(self.ev(st, argn[0]))
            self.oblige(st, "pre", "%s.argument_is_an_int" % name, is_long(o), n)
            lo, hi = ty.min, ty.max
            fits = z3.And(intval(o) >= lo, intval(o) <= hi)
            self.assumptions.add("%s(o) on an int returns its value, or (T)-1 with OverflowError when it does not fit" % name)
            st.err = z3.If(fits, st.err, z3.IntVal(ERRS["OverflowError"]))
            return CV(ty, z3.If(fits, intval(o), z3.IntVal(ty.max if not ty.signed else -1)))
        if name in ("_PyLong_IsCompact",):
            o = self.oid(self.ev(st, argn[0]))
            self.use_rep(st, o)
            self.assumptions.add("_PyLong_IsCompact(op) == (op->long_value.lv_tag < (2 << 3))  (CPython 3.12 inline helper)")
            return from_bool(lv_tag(o) < 16, ty)
        if name in ("PyLong_FromLong", "PyLong_FromSsize_t", "PyLong_FromUnsignedLongLong", "PyLong_FromUnsignedLong",
                    "PyLong_FromLongLong", "PyLong_FromSize_t"):
            v = self.ev(st, argn[0])
            r = self.obj(st, ty, "new_int")
            st.path.append(z3.And(is_long(r.off), intval(r.off) == v.t))
            self.assumptions.add("%s(v) returns a new exact int with value v (allocation failure not modelled)" % name)
            return r
        if name in ("PyLong_AsSsize_t", "PyLong_AsLong"):
            o = self.oid(self.ev(st, argn[0]))
            lo, hi = -(1 << 63), (1 << 63) - 1
            self.oblige(st, "pre", "%s.argument_is_an_int" % name, is_long(o), n)
            fits = z3.And(intval(o) >= lo, intval(o) <= hi)
            self.assumptions.add("%s(o) on an int returns its value, or -1 with OverflowError when it does not fit" % name)
            st.err = z3.If(fits, st.err, z3.IntVal(ERRS["OverflowError"]))
            return CV(ty, z3.If(fits, intval(o), z3.IntVal(-1)))
        if name == "PyFloat_FromDouble":
            v = self.ev(st, argn[0])
            r = self.obj(st, ty, "new_float")
            st.path.append(z3.And(is_float(r.off), fval(r.off) == v.t, z3.Not(is_long(r.off))))
            self.assumptions.add("PyFloat_FromDouble(d) returns a new exact float with value d (allocation failure not modelled)")
            return r
        if name in ("__Pyx_NewRef", "Py_NewRef"):
            return self.ev(st, argn[0])
        if name in ("Py_DECREF", "Py_INCREF", "Py_XDECREF", "Py_XINCREF", "__Pyx_DECREF", "__Pyx_INCREF"):
            for a in argn:
                self.ev(st, a)
            return None
        if name == "PyNumber_Lshift":
            a, b = self.oid(self.ev(st, argn[0])), self.oid(self.ev(st, argn[1]))
            r = self.obj(st, ty, "lshift")
            self.assumptions.add("PyNumber_Lshift(a, b) on exact ints with b >= 0 returns the exact int a * 2**b")
            from . import spec as _S
            nb = intval(b)
            st.path.append(z3.Implies(z3.And(is_long(a), is_long(b), nb >= 0),
                                      z3.And(is_long(r.off), intval(r.off) == intval(a) * pow2u(nb))))
            # pow2 is the function n -> 2**n: it agrees with the closed form on the range the closed form covers
            st.path.append(z3.Implies(z3.And(nb >= 0, nb <= 64), pow2u(nb) == _S.pow2(nb)))
            return r
        if name in ("PyByteArray_GET_SIZE", "PyByteArray_AS_STRING"):
            o = self.oid(self.ev(st, argn[0]))
            self.oblige(st, "pre", "%s.argument_is_a_bytearray" % name, exact_type(o) == TYPE_IDS["PyByteArray_Type"], n)
            st.path.append(z3.And(blen(o) >= 0, blen(o) < 2 ** 62))
            self.assumptions.add("PyByteArray_GET_SIZE / PyByteArray_AS_STRING: the length of the bytearray and len + 1 readable chars")
            if name == "PyByteArray_GET_SIZE":
                return CV(ty, blen(o))
            oname = "pybytes[%s]" % o
            if oname not in st.objs:
                from .cfe import MemObj
                st.objs[oname] = MemObj(oname, parse_type("char"), blen(o) + 1)
            if oname not in st.mem:
                st.mem[oname] = bytes_of(o)
            return Ptr(ty, oname, z3.IntVal(0))
        if name == "PyBytes_GET_SIZE":
            o = self.oid(self.ev(st, argn[0]))
            self.oblige(st, "pre", "PyBytes_GET_SIZE.argument_is_bytes", is_bytes_sub(o), n)
            st.path.append(z3.And(blen(o) >= 0, blen(o) < 2 ** 62))
            self.assumptions.add("PyBytes_GET_SIZE(o) is the length of the bytes object (0 <= size, far below PY_SSIZE_T_MAX)")
            return CV(ty, blen(o))
        if name == "PyBytes_AS_STRING":
            o = self.oid(self.ev(st, argn[0]))
            self.oblige(st, "pre", "PyBytes_AS_STRING.argument_is_bytes", is_bytes_sub(o), n)
            oname = "pybytes[%s]" % o
            if oname not in st.objs:
                from .cfe import MemObj
                st.objs[oname] = MemObj(oname, parse_type("char"), blen(o) + 1)
            if oname not in st.mem:
                st.mem[oname] = bytes_of(o)
                st.path.append(z3.And(blen(o) >= 0, blen(o) < 2 ** 62))
            self.assumptions.add("PyBytes_AS_STRING(o) points to len(o) + 1 readable chars (the contents and a terminating NUL)")
            return Ptr(ty, oname, z3.IntVal(0))
        if name in ("memmove", "__builtin_memmove", "__builtin___memmove_chk"):
            d, s_, cnt = self.ev(st, argn[0]), self.ev(st, argn[1]), self.ev(st, argn[2])
            if (isinstance(d, Ptr) and isinstance(s_, Ptr) and isinstance(d.obj, tuple) and d.obj == s_.obj and d.obj[0] == "pyitems"):
                o = d.obj[1]
                nbytes = cnt.t
                nel = nbytes / 8
                self.oblige(st, "ub", "memmove.whole_elements", z3.And(nbytes >= 0, nbytes % 8 == 0), n)
                self.oblige(st, "ub", "memmove.dst_inside_items", z3.And(d.off >= 0, d.off + nel <= seq_len(o)), n)
                self.oblige(st, "ub", "memmove.src_inside_items", z3.And(s_.off >= 0, s_.off + nel <= seq_len(o)), n)
                key = self.gkey("listitems", o)
                i = z3.Int("i!mm")
                cur = st.mem[key] if key in st.mem else z3.Lambda([i], item(o, i))
                st.mem[key] = z3.Lambda([i], z3.If(z3.And(i >= d.off, i < d.off + nel), z3.Select(cur, i - d.off + s_.off), z3.Select(cur, i)))
                self.assumptions.add("memmove(d, s, n) inside one list's element array: n / sizeof(PyObject*) elements copied as if through a temporary (C11 7.24.2.2)")
                return d
            raise OutOfSubset("memmove outside a list's element array")
        if name == "Py_REFCNT":
            self.ev(st, argn[0])
            r = self.fresh("refcnt")
            st.path.append(z3.And(r >= 1, r < 2 ** 62))
            self.assumptions.add("Py_REFCNT(o): some positive count (reference counts are not modelled)")
            return CV(ty, r)
        if name in ("PyList_GET_ITEM", "PyList_SET_ITEM"):
            o = self.oid(self.ev(st, argn[0]))
            idx = self.ev(st, argn[1])
            st.path.append(z3.And(seq_len(o) >= 0, seq_len(o) < 2 ** 62))
            # a read must stay below the size, a write inside the allocated slots (appending writes slot ob_size before the size is raised)
            lim = seq_len(o) if name.endswith("GET_ITEM") else self.allocated(st, o)
            self.oblige(st, "ub", "oob_%s.ob_item" % ("read" if name.endswith("GET_ITEM") else "write"), z3.And(idx.t >= 0, idx.t < lim), n)
            key = self.gkey("liststore", o)
            if key not in st.mem:
                st.mem[key] = z3.K(I, z3.IntVal(0))      # 0 = slot not written by the subject
            if name == "PyList_GET_ITEM":
                cur = z3.Select(st.mem[key], idx.t)
                r = z3.If(cur == 0, item(o, idx.t), cur)
                st.path.append(item(o, idx.t) >= 1)
                return Ptr(parse_type("PyObject *"), "pyobj", r)
            v = self.oid(self.ev(st, argn[2]))
            st.mem[key] = z3.Store(st.mem[key], idx.t, v)
            st.mem[self.gkey("liststores", o)] = st.mem.get("liststores[%s]" % o, z3.IntVal(0)) + 1
            self.assumptions.add("PyList_GET_ITEM / PyList_SET_ITEM read / overwrite slot ob_item[i] (0 <= i < size is an obligation)")
            return None
        if name in ("PySequence_Contains", "__Pyx_PySequence_ContainsTF"):
            # PySequence_Contains(seq, item) -> 1 / 0 / -1; the Cython wrapper takes (item, seq, eq) and maps the answer through eq
            wrapped = name != "PySequence_Contains"
            a0, a1 = self.oid(self.ev(st, argn[0])), self.oid(self.ev(st, argn[1]))
            seq_id, item_id = (a1, a0) if wrapped else (a0, a1)
            r = self.fresh("contains")
            st.path.append(z3.And(r >= -1, r <= 1, generic(z3.IntVal(OPCODES["contains"]), seq_id, item_id, z3.IntVal(0), r)))
            e2 = self.fresh("err_after_contains")
            st.path.append(z3.Implies(r >= 0, e2 == st.err))
            st.path.append(z3.Implies(r < 0, e2 != 0))
            st.err = e2
            self.assumptions.add("PySequence_Contains(seq, item) is CPython's own membership test (1 / 0, or -1 with an exception)")
            if wrapped:
                eq = self.ev(st, argn[2])
                return CV(ty, z3.If(r < 0, r, z3.If((r == 1) == (eq.t == 2), z3.IntVal(1), z3.IntVal(0))))
            return CV(ty, r)
        if name == "PyList_Append":
            o = self.oid(self.ev(st, argn[0]))
            v = self.oid(self.ev(st, argn[1]))
            r = self.fresh("list_append")
            st.path.append(z3.And(r >= -1, r <= 0, generic(z3.IntVal(OPCODES["list_append"]), o, v, z3.IntVal(0), r)))
            e2 = self.fresh("err_after_append")
            st.path.append(z3.Implies(r == 0, e2 == st.err))
            st.err = e2
            self.assumptions.add("PyList_Append(l, x) is CPython's own append (0, or -1 with an exception)")
            return CV(ty, r)
        if name in ("__Pyx_PyObject_CallMethod1", "__Pyx_PyObject_CallMethod0"):
            import re as _re
            import json as _json
            # the interned name: __pyx_mstate_global->__pyx_string_tab[K], with `#define __pyx_n_u_<name> __pyx_string_tab[K]` in the module
            dump = _json.dumps(argn[1])
            m = _re.search(r'"IntegerLiteral".*?"value": "(\d+)"', dump) if "__pyx_string_tab" in dump else None
            m = m and _re.search(r"#define __pyx_n_[us]_(\w+) __pyx_string_tab\[%s\]" % m.group(1), getattr(self, "tu_text", ""))
            if not m:
                raise OutOfSubset("method name of %s" % name)
            from .pyfe import intern_id
            ids = [self.oid(self.ev(st, argn[0])), z3.IntVal(intern_id("method:" + m.group(1)))]
            ids.append(self.oid(self.ev(st, argn[2])) if len(argn) > 2 else z3.IntVal(0))
            r = self.obj(st, ty, "generic")
            st.path[-1] = r.off >= 0          # may be NULL (exception)
            from .cfe import mark_nullable
            mark_nullable(r.off)
            st.path.append(generic(z3.IntVal(OPCODES["methodcall"]), ids[0], ids[1], ids[2], r.off))
            e2 = self.fresh("err_after_method")
            st.path.append(z3.Implies(r.off >= 1, e2 == st.err))
            st.err = e2
            self.assumptions.add("__Pyx_PyObject_CallMethod0/1(o, name, x) is the Python-level call o.name(x) (result object, or NULL with an exception)")
            return r
        if name == "__Pyx_SetItemInt_Generic":
            o = self.oid(self.ev(st, argn[0]))
            j = self.oid(self.ev(st, argn[1]))
            v = self.oid(self.ev(st, argn[2]))
            r = self.fresh("setitem_generic")
            st.path.append(z3.And(r >= -1, r <= 0, generic(z3.IntVal(OPCODES["setitem"]), o, j, v, r)))
            e2 = self.fresh("err_after_setitem")
            st.path.append(z3.Implies(r == 0, e2 == st.err))
            st.err = e2
            self.assumptions.add("calls into CPython's generic protocol (PyNumber_*, PyObject_*) return CPython's own result")
            return CV(ty, r)
        if name == "PyLong_AsDouble":
            o = self.oid(self.ev(st, argn[0]))
            self.oblige(st, "pre", "PyLong_AsDouble.argument_is_an_int", is_long(o), n)
            from .cfe import nearest_fp
            ok = self.fresh("aslongdouble_ok", z3.BoolSort())
            self.assumptions.add("PyLong_AsDouble(o) returns the double nearest to the int (the shared int->double function), or -1.0 with "
                                 "OverflowError when the int is too large for a double")
            st.err = z3.If(ok, st.err, z3.IntVal(ERRS["OverflowError"]))
            return CV(ty, z3.If(ok, nearest_fp(intval(o)), z3.FPVal(-1.0, z3.Float64())))
        if name == "PyFloat_AS_DOUBLE":
            o = self.oid(self.ev(st, argn[0]))
            self.oblige(st, "pre", "PyFloat_AS_DOUBLE.argument_is_a_float", is_float(o), n)
            self.assumptions.add("PyFloat_AS_DOUBLE(o) (ob_fval) is the value of the float object")
            return CV(ty, fval(o))
        if name == "PyObject_RichCompare":
            a, b = self.oid(self.ev(st, argn[0])), self.oid(self.ev(st, argn[1]))
            opc = self.ev(st, argn[2])
            self.no_pending_exception(st, name, n)
            rid = richcmp_obj(a, b, opc.t)
            st.path.append(rid >= 0)          # 0: NULL (an exception was raised by CPython's comparison)
            e2 = self.fresh("err_after_richcmp")
            st.path.append(z3.Implies(rid >= 1, e2 == st.err))
            st.path.append(z3.Implies(rid == 0, e2 != 0))        # NULL comes with an exception set
            st.err = e2
            self.assumptions.add("PyObject_RichCompare(a, b, op) is CPython's own comparison (its result object, or NULL with an exception)")
            from .cfe import mark_nullable
            return Ptr(ty, "pyobj", mark_nullable(rid))
        if name in ("__Pyx_PyObject_IsTrueAndDecref", "__Pyx_PyObject_IsTrue", "PyObject_IsTrue"):
            x = self.oid(self.ev(st, argn[0]))
            # (IsTrueAndDecref(NULL) is the documented pass-through of a failed comparison: -1, nothing is called)
            self.no_pending_exception(st, name, n, unless=(x == 0) if name == "__Pyx_PyObject_IsTrueAndDecref" else None)
            r = self.fresh("istrue")
            st.path.append(z3.And(r >= -1, r <= 1, r == truth_of(x), z3.Implies(x == 0, r == -1)))
            e2 = self.fresh("err_after_istrue")
            st.path.append(z3.Implies(r >= 0, e2 == st.err))
            st.path.append(z3.Implies(r < 0, e2 != 0))           # -1 comes with an exception set
            st.err = e2
            self.assumptions.add("__Pyx_PyObject_IsTrueAndDecref(x) is PyObject_IsTrue(x) (-1 for NULL / on error)")
            return CV(ty, r)
        if name in ("__Pyx_PyObject_RichCompareBool", "PyObject_RichCompareBool"):
            a, b = self.oid(self.ev(st, argn[0])), self.oid(self.ev(st, argn[1]))
            opc = self.ev(st, argn[2])
            r = self.fresh("richcmpbool")
            st.path.append(z3.And(r >= -1, r <= 1))
            st.path.append(generic(z3.IntVal(OPCODES["richcmp"]), a, b, opc.t, r))
            if name == "PyObject_RichCompareBool":
                # the C-API function (unlike the operators == and !=) answers for IDENTICAL objects without calling __eq__ / __ne__
                st.path.append(z3.Implies(a == b, z3.And(z3.Implies(opc.t == 2, r == 1), z3.Implies(opc.t == 3, r == 0))))
                self.assumptions.add("PyObject_RichCompareBool(a, a, Py_EQ / Py_NE) is 1 / 0 without a call (CPython's identity shortcut)")
            # may raise: the error indicator after the call is CPython's business
            e2 = self.fresh("err_after_richcmp")
            st.path.append(z3.Implies(r >= 0, e2 == st.err))
            st.err = e2
            self.assumptions.add("calls into CPython's generic protocol (PyNumber_*, PyObject_*) return CPython's own result")
            return CV(ty, r)
        if name == "__Pyx_IgnoreGivenException":
            for a in argn:
                self.ev(st, a)
            b = self.fresh("ignored", z3.BoolSort())
            self.assumptions.add("__Pyx_IgnoreGivenException clears the pending error iff it returns true")
            st.err = z3.If(b, z3.IntVal(0), st.err)
            return from_bool(b, ty)
        return CExecL3.call(self, st, name, argn, n)

    def ev_ImplicitCastExpr(self, st, n):
        if n.get("castKind") == "IntegralToPointer" and "PyObject" in (n.get("type", {}).get("qualType") or ""):
            # (PyObject *)<integer>: only the null pointer constant is a valid object pointer; anything else is dereferenced by the C-API
            v = self.ev(st, n["inner"][0])
            self.oblige(st, "ub", "integer_cast_to_object_pointer", v.t == 0, n)
            return self.obj(st, node_type(n), "from_integer")
        return CExecL3.ev_ImplicitCastExpr(self, st, n)

    def no_pending_exception(self, st, name, n, unless=None):
        """C-API rule: a function that may run Python code must not be entered with the error indicator set (CPython asserts this in
        debug builds; in release builds the pending exception is lost or the call returns a result WITH an exception set)."""
        if st.err is not None:
            self.oblige(st, "pre", "%s.no_exception_pending_at_the_call" % name, st.err == 0 if unless is None else z3.Or(unless, st.err == 0), n)

    def ev_CallExpr(self, st, n):
        callee = n["inner"][0]
        while callee["kind"] in ("ImplicitCastExpr", "ParenExpr"):
            callee = callee["inner"][0]
        if callee["kind"] == "ConditionalOperator":
            # (cond ? f : g)(args): both alternatives must be generic protocol functions of the same family
            c0, fa, fb = callee["inner"]
            names = []
            for f in (fa, fb):
                while f["kind"] in ("ImplicitCastExpr", "ParenExpr"):
                    f = f["inner"][0]
                if f["kind"] != "DeclRefExpr":
                    raise OutOfSubset("indirect call")
                names.append(f["referencedDecl"]["name"])
            self.ev(st, c0)
            if set(names) <= {"PyNumber_Power", "PyNumber_InPlacePower"}:
                return self.generic_call(st, "pow", n["inner"][1:], n)
            ops = {nm.replace("PyNumber_InPlace", "").replace("PyNumber_", "") for nm in names}
            if len(ops) == 1 and list(ops)[0] in PYNUMBER:
                return self.generic_call(st, PYNUMBER[list(ops)[0]], n["inner"][1:], n)
            raise OutOfSubset("conditional call of %s" % names)
        if callee["kind"] == "MemberExpr" and callee.get("name", "") == "tp_richcompare":
            # PyFloat_Type.tp_richcompare(a, b, op): CPython's own comparison of these two objects
            args = [self.ev(st, a) for a in n["inner"][1:]]
            a, b = self.oid(args[0]), self.oid(args[1])
            rid = richcmp_obj(a, b, args[2].t)
            st.path.append(rid >= 0)
            e2 = self.fresh("err_after_richcmp")
            st.path.append(z3.Implies(rid >= 1, e2 == st.err))
            st.err = e2
            self.assumptions.add("a type's tp_richcompare slot is CPython's own comparison (result object, or NULL with an exception)")
            return Ptr(node_type(n), "pyobj", rid)
        if callee["kind"] == "MemberExpr" and callee.get("name", "") in NB_SLOTS:
            # PyLong_Type.tp_as_number->nb_xxx(a, b): CPython's own int implementation of the operator
            return self.generic_call(st, NB_SLOTS[callee["name"]], n["inner"][1:], n)
        if callee["kind"] == "DeclRefExpr":
            nm = callee["referencedDecl"]["name"]
            key = nm.replace("PyNumber_InPlace", "").replace("PyNumber_", "")
            if nm.startswith("PyNumber_") and key in PYNUMBER and key != "Lshift":
                return self.generic_call(st, PYNUMBER[key], n["inner"][1:], n)
        if callee["kind"] == "DeclRefExpr" and callee["referencedDecl"]["name"] in ("PyNumber_Power", "PyNumber_InPlacePower"):
            return self.generic_call(st, "pow", n["inner"][1:], n)
        return CExecL3.ev_CallExpr(self, st, n)

    def generic_call(self, st, op, argn, n):
        """delegation to CPython's generic protocol: the result IS CPython's answer (assumed correct)"""
        args = [self.ev(st, a) for a in argn]
        ids = [self.oid(a) if isinstance(a, Ptr) and a.obj == "pyobj" else (a.t if isinstance(a, CV) and a.ty.is_int() else z3.IntVal(0))
               for a in args]
        while len(ids) < 3:
            ids.append(z3.IntVal(0))
        r = self.obj(st, node_type(n), "generic")
        st.path.append(generic(z3.IntVal(OPCODES[op]), ids[0], ids[1], ids[2], r.off))
        self.assumptions.add("calls into CPython's generic protocol (PyNumber_*, PyObject_*) return CPython's own result")
        return r
