"""Shared core: obligations, discharge (z3 API, cvc5 / z3 CLI fallback), result records."""
import os
import re
import subprocess
import tempfile
import time
import hashlib
import z3

QUICK_TIMEOUT_S = int(os.environ.get("DV_TIMEOUT", "30"))


class OutOfSubset(Exception):
    """The subject uses a construct the front end does not model (-> UNDECIDED, never a pass)."""


class StaleContract(Exception):
    """A contract refers to something that no longer exists in the subject."""


class Obligation:
    """path /\\ not goal must be unsat."""
    __slots__ = ("name", "kind", "path", "goal", "loc", "status", "model", "secs", "backend",
                 "note", "extra")

    def __init__(self, name, kind, path, goal, loc=None, note=""):
        self.name = name
        self.kind = kind          # post | pre | ub | inv | index | raise | cover | lemma ...
        self.path = list(path)
        self.goal = goal
        self.loc = loc
        self.status = None        # proved | failed | unknown
        self.model = None
        self.secs = 0.0
        self.backend = None
        self.note = note
        self.extra = {}

    def formula_smt2(self):
        s = z3.Solver()
        for p in self.path:
            s.add(p)
        s.add(z3.Not(self.goal))
        return s.to_smt2()

    def short(self):
        if isinstance(self.goal, bool):
            g = str(self.goal)
        else:
            # sexpr() is printed by z3 itself (fast); the Python pretty-printer takes seconds on array-heavy goals
            sg = z3.simplify(self.goal)
            g = sg.sexpr()
            g = g[:300] if len(g) > 300 else str(sg)      # (sexpr shares sub-terms with let; str() would expand them)
        g = re.sub(r"\s+", " ", g)
        return {"name": self.name, "kind": self.kind, "goal": g[:300], "status": self.status,
                "backend": self.backend, "secs": round(self.secs, 3)}


def _model_dict(m):
    out = {}
    for d in m.decls():
        if d.arity() == 0:
            v = m[d]
            out[d.name()] = _val(v)
    return out


def _val(v):
    if z3.is_int_value(v):
        return v.as_long()
    if z3.is_true(v):
        return True
    if z3.is_false(v):
        return False
    if z3.is_fp_value(v) if hasattr(z3, "is_fp_value") else False:
        return fp_to_py(v)
    if z3.is_bv_value(v):
        return v.as_long()
    if z3.is_rational_value(v):
        return float(v.as_fraction())
    return str(v)


def fp_to_py(v):
    import struct
    if v.isNaN():
        return float("nan")
    if v.isInf():
        return float("-inf") if v.isNegative() else float("inf")
    bv = z3.simplify(z3.fpToIEEEBV(v))
    n = bv.as_long()
    if v.ebits() == 11:
        return struct.unpack("<d", struct.pack("<Q", n))[0]
    return struct.unpack("<f", struct.pack("<I", n))[0]


def _cli(cmd, smt2, timeout):
    with tempfile.NamedTemporaryFile("w", suffix=".smt2", delete=False) as f:
        f.write(smt2)
        fn = f.name
    try:
        p = subprocess.run(cmd + [fn], capture_output=True, text=True, timeout=timeout + 5)
        out = (p.stdout or "").strip().splitlines()
        return out[0].strip() if out else "unknown"
    except subprocess.TimeoutExpired:
        return "unknown"
    finally:
        os.unlink(fn)


_HAS_QUANT = {}


def discharge(ob, timeout_s=None, want_model=True):
    """Decide one obligation.  unsat -> proved, sat -> failed (+model), else unknown."""
    if os.environ.get("DV_TRACE"):
        try:
            return _discharge(ob, timeout_s, want_model)
        finally:
            with open(os.environ["DV_TRACE"], "a") as f:
                f.write("%-8s %6.1fs %s\n" % (ob.status, ob.secs or 0, ob.name[:160]))
    return _discharge(ob, timeout_s, want_model)


def _discharge(ob, timeout_s=None, want_model=True):
    timeout_s = timeout_s or QUICK_TIMEOUT_S
    t0 = time.time()
    if isinstance(ob.goal, bool):
        ob.goal = z3.BoolVal(ob.goal)
    def z3_try(label, opts, tmo):
        s = z3.Solver()
        s.set("timeout", int(tmo * 1000))
        for k, v in opts.items():
            try:
                s.set(k, v)
            except z3.Z3Exception:
                pass
        for p in ob.path:
            s.add(p)
        s.add(z3.Not(ob.goal))
        try:
            res = s.check()
        except z3.Z3Exception as e:  # pragma: no cover
            ob.note += " z3 exception: %s" % e
            return False
        if res == z3.unsat:
            ob.status, ob.backend = "proved", label
            return True
        if res == z3.sat:
            ob.status, ob.backend = "failed", label
            if want_model:
                try:
                    ob.model = _model_dict(s.model())
                except Exception as e:  # pragma: no cover
                    ob.model = {"_error": str(e)}
            return True
        return False

    def cli_try(label, cmd, tmo):
        smt2 = ob.formula_smt2()
        text = smt2 if label != "cvc5-cli" else "(set-logic ALL)\n" + smt2
        r = _cli(cmd, text, tmo)
        if r == "unsat":
            ob.status, ob.backend = "proved", label
            return True
        if r == "sat":
            # a sat answer from a CLI back end carries no model here; keep it undecided
            ob.note += " %s says sat (no model extracted)" % label
        return False

    def has_quant(f):
        # path formulas are shared by hundreds of obligations of a unit: memoise per term (the cache keeps the term
        # alive, so its id cannot be reused)
        key = f.get_id()
        hit = _HAS_QUANT.get(key)
        if hit is not None:
            return hit[1]
        seen = set()
        todo = [f]
        res = False
        while todo:
            x = todo.pop()
            if z3.is_quantifier(x):
                res = True
                break
            if x.get_id() in seen:
                continue
            seen.add(x.get_id())
            todo.extend(x.children())
        _HAS_QUANT[key] = (f, res)
        return res

    def qf_try(tmo):
        """sound shortcut: drop the quantified hypotheses (fewer hypotheses); only `unsat` counts"""
        qf = [p for p in flat if not has_quant(p)]
        if len(qf) == len(flat) or has_quant(ob.goal):
            return False
        s = z3.Solver()
        s.set("timeout", int(tmo * 1000))
        for p in qf:
            s.add(p)
        s.add(z3.Not(ob.goal))
        try:
            if s.check() == z3.unsat:
                ob.status, ob.backend = "proved", "z3-api/qf-hypotheses"
                return True
        except z3.Z3Exception:      # pragma: no cover
            pass
        return False

    def inst_try(tmo):
        """sound heuristic for array-shift style VCs that defeat E-matching: split the goal into conjuncts,
        skolemise universally quantified conjuncts, instantiate every Int-quantified hypothesis at the skolem
        constants +-0..2 (instances of hypotheses are consequences of them), and decide the quantifier-free rest.
        Only `unsat` of every conjunct counts."""
        conjs = ob.goal.children() if z3.is_and(ob.goal) else [ob.goal]
        qhyps = [p for p in flat if z3.is_quantifier(p) and p.is_forall()]
        base = [p for p in flat if not has_quant(p)]
        if not qhyps and len(conjs) == 1:
            return False
        deadline = time.time() + tmo
        for ci, c in enumerate(conjs):
            sks = []
            body = c
            if z3.is_quantifier(c) and c.is_forall():
                sks = [z3.Const("sk!%d!%s" % (ci, c.var_name(i)), c.var_sort(i)) for i in range(c.num_vars())]
                body = z3.substitute_vars(c.body(), *reversed(sks))
            if has_quant(body):
                return False
            cands = []
            for sk in sks:
                if sk.sort() == z3.IntSort():
                    cands += [sk + d if d else sk for d in (0, -2, 2, -1, 1)]
            insts = []
            for q in qhyps:
                nv = q.num_vars()
                if nv > 2 or any(q.var_sort(i) != z3.IntSort() for i in range(nv)) or not cands:
                    continue
                import itertools
                for combo in itertools.product(cands, repeat=nv):
                    insts.append(z3.substitute_vars(q.body(), *reversed(combo)))
            s = z3.Solver()
            s.set("timeout", int(max(1.0, deadline - time.time()) * 1000))
            for p in base + insts:
                s.add(p)
            s.add(z3.Not(body))
            try:
                if s.check() != z3.unsat:
                    return False
            except z3.Z3Exception:      # pragma: no cover
                return False
        ob.status, ob.backend = "proved", "z3-api/skolemise+instantiate"
        return True

    def split_try(tmo):
        """sound and complete reformulation for VCs that hinge on a few free Boolean constants inside If-terms of a heavy theory (floating point:
        `fpMul(a, If(ok, x, -1.0))` is bit-blasted before the solver learns that `ok` holds): decide the VC once per assignment of at most
        three such constants, substituted and simplified first.  Only `unsat` of EVERY case counts."""
        fs = flat + [z3.Not(ob.goal)]
        consts, seen, todo = {}, set(), list(fs)
        while todo and len(seen) < 20000:
            x = todo.pop()
            if x.get_id() in seen:
                continue
            seen.add(x.get_id())
            if z3.is_quantifier(x):
                continue                    # (quantified hypotheses are kept as they are)
            if z3.is_const(x) and z3.is_bool(x) and x.decl().kind() == z3.Z3_OP_UNINTERPRETED:
                consts[x.get_id()] = x
            todo.extend(x.children())
        if len(consts) > 3:
            consts = {}                     # too many: one case, the simplified formula itself
        import itertools
        cs = list(consts.values())
        deadline = time.time() + tmo
        for vals in itertools.product((True, False), repeat=len(cs)):
            sub = [(c, z3.BoolVal(v)) for c, v in zip(cs, vals)]
            sol = z3.Solver()
            sol.set("timeout", int(max(1.0, deadline - time.time()) * 1000))
            for f in fs:
                sol.add(z3.simplify(z3.substitute(f, *sub)))
            try:
                r_ = sol.check()
                if os.environ.get("DV_DBG_SPLIT"):
                    print("split_try case", vals, r_, len(fs))
                if r_ != z3.unsat:
                    return False
            except z3.Z3Exception as ex_:      # pragma: no cover
                if os.environ.get("DV_DBG_SPLIT"):
                    print("split_try exception", ex_)
                return False
        ob.status, ob.backend = "proved", "z3-api/simplified" + ("+bool-case-split" if cs else "")
        return True

    flat = []
    for p in ob.path:
        flat.extend(p.children() if z3.is_and(p) else [p])

    # portfolio: short z3, cvc5, then z3 at the full budget with two configurations, then z3 4.8
    short = max(2.0, timeout_s / 6.0)
    # (the first three steps are those of the earlier sessions, unchanged; the simplified / case-split retry comes after them)
    done = (qf_try(short) or z3_try("z3-api", {}, short) or inst_try(timeout_s) or split_try(short)
            or cli_try("cvc5-cli", ["/usr/bin/cvc5", "--tlimit=%d" % int(timeout_s * 1000)], timeout_s)
            or z3_try("z3-api", {}, timeout_s)
            or z3_try("z3-api/seed7", {"random_seed": 7, "smt.arith.solver": 2}, timeout_s)
            or cli_try("z3-4.8-cli", ["/usr/bin/z3", "-T:%d" % int(timeout_s)], timeout_s))
    if not done or ob.status is None:
        ob.status = "unknown"
    ob.secs = time.time() - t0
    return ob


def has_quantifier(f):
    todo, seen = [f], set()
    while todo:
        x = todo.pop()
        if z3.is_quantifier(x):
            return True
        if x.get_id() in seen:
            continue
        seen.add(x.get_id())
        todo.extend(x.children())
    return False


def qf_part(constraints):
    """the quantifier-free conjuncts of a list of constraints (a WEAKER set: sound for refuting, i.e. for `unsat` answers)"""
    flat = []
    for c in constraints:
        flat.extend(c.children() if z3.is_and(c) else [c])
    return [c for c in flat if not has_quantifier(c)]


def check_sat(constraints, timeout_s=10):
    """reachability cover.  With quantified constraints z3 often answers `unknown` for satisfiable sets; the
    cover then falls back to the quantifier-free part (a weaker cover, still catching contradictory
    quantifier-free preconditions and dead paths)."""
    s = z3.Solver()
    s.set("timeout", int(timeout_s * 1000))
    for c in constraints:
        s.add(c)
    r = s.check()
    if r != z3.unknown:
        return r

    def has_quant(f):
        todo, seen = [f], set()
        while todo:
            x = todo.pop()
            if z3.is_quantifier(x):
                return True
            if x.get_id() in seen:
                continue
            seen.add(x.get_id())
            todo.extend(x.children())
        return False
    flat = []
    for c in constraints:
        flat.extend(c.children() if z3.is_and(c) else [c])
    s = z3.Solver()
    s.set("timeout", int(timeout_s * 1000))
    for c in flat:
        if not has_quant(c):
            s.add(c)
    return s.check()


def sha(text):
    return hashlib.sha256(text.encode("utf-8", "surrogatepass")).hexdigest()[:16]


class UnitResult:
    """Outcome of verifying one subject instantiation (picklable)."""

    def __init__(self, unit_id, subject):
        self.unit_id = unit_id
        self.subject = subject       # dict(file, function, instantiation, sha, route, dropped)
        self.obligations = []        # list of dicts (Obligation.short() + model)
        self.covers = 0
        self.cover_failures = []
        self.error = None            # (kind, text): out-of-subset | stale-contract | checker-error
        self.assumptions = []
        self.wall = 0.0
        self.failed = []             # list of dict(name, model, kind, note)
        self.unknown = []
        self.info = {}
