"""Shared core: obligations, discharge (z3 API, cvc5 / z3 CLI fallback), result records."""
import os
import re
import subprocess
import tempfile
import time
import hashlib
import z3

QUICK_TIMEOUT_S = int(os.environ.get("DV_TIMEOUT", "30"))


class OutOfSubset(Exception):
    """The subject uses a construct the front end does not model (-> UNDECIDED, never a pass)."""


class StaleContract(Exception):
    """A contract refers to something that no longer exists in the subject."""


class Obligation:
    """path /\\ not goal must be unsat."""
    __slots__ = ("name", "kind", "path", "goal", "loc", "status", "model", "secs", "backend",
                 "note", "extra")

    def __init__(self, name, kind, path, goal, loc=None, note=""):
        self.name = name
        self.kind = kind          # post | pre | ub | inv | index | raise | cover | lemma ...
        self.path = list(path)
        self.goal = goal
        self.loc = loc
        self.status = None        # proved | failed | unknown
        self.model = None
        self.secs = 0.0
        self.backend = None
        self.note = note
        self.extra = {}

    def formula_smt2(self):
        s = z3.Solver()
        for p in self.path:
            s.add(p)
        s.add(z3.Not(self.goal))
        return s.to_smt2()

    def short(self):
        g = str(z3.simplify(self.goal)) if not isinstance(self.goal, bool) else str(self.goal)
        g = re.sub(r"\s+", " ", g)
        return {"name": self.name, "kind": self.kind, "goal": g[:300], "status": self.status,
                "backend": self.backend, "secs": round(self.secs, 3)}


def _model_dict(m):
    out = {}
    for d in m.decls():
        if d.arity() == 0:
            v = m[d]
            out[d.name()] = _val(v)
    return out


def _val(v):
    if z3.is_int_value(v):
        return v.as_long()
    if z3.is_true(v):
        return True
    if z3.is_false(v):
        return False
    if z3.is_fp_value(v) if hasattr(z3, "is_fp_value") else False:
        return fp_to_py(v)
    if z3.is_bv_value(v):
        return v.as_long()
    if z3.is_rational_value(v):
        return float(v.as_fraction())
    return str(v)


def fp_to_py(v):
    import struct
    if v.isNaN():
        return float("nan")
    if v.isInf():
        return float("-inf") if v.isNegative() else float("inf")
    bv = z3.simplify(z3.fpToIEEEBV(v))
    n = bv.as_long()
    if v.ebits() == 11:
        return struct.unpack("<d", struct.pack("<Q", n))[0]
    return struct.unpack("<f", struct.pack("<I", n))[0]


def _cli(cmd, smt2, timeout):
    with tempfile.NamedTemporaryFile("w", suffix=".smt2", delete=False) as f:
        f.write(smt2)
        fn = f.name
    try:
        p = subprocess.run(cmd + [fn], capture_output=True, text=True, timeout=timeout + 5)
        out = (p.stdout or "").strip().splitlines()
        return out[0].strip() if out else "unknown"
    except subprocess.TimeoutExpired:
        return "unknown"
    finally:
        os.unlink(fn)


def discharge(ob, timeout_s=None, want_model=True):
    """Decide one obligation.  unsat -> proved, sat -> failed (+model), else unknown."""
    timeout_s = timeout_s or QUICK_TIMEOUT_S
    t0 = time.time()
    if isinstance(ob.goal, bool):
        ob.goal = z3.BoolVal(ob.goal)
    def z3_try(label, opts, tmo):
        s = z3.Solver()
        s.set("timeout", int(tmo * 1000))
        for k, v in opts.items():
            try:
                s.set(k, v)
            except z3.Z3Exception:
                pass
        for p in ob.path:
            s.add(p)
        s.add(z3.Not(ob.goal))
        try:
            res = s.check()
        except z3.Z3Exception as e:  # pragma: no cover
            ob.note += " z3 exception: %s" % e
            return False
        if res == z3.unsat:
            ob.status, ob.backend = "proved", label
            return True
        if res == z3.sat:
            ob.status, ob.backend = "failed", label
            if want_model:
                try:
                    ob.model = _model_dict(s.model())
                except Exception as e:  # pragma: no cover
                    ob.model = {"_error": str(e)}
            return True
        return False

    def cli_try(label, cmd, tmo):
        smt2 = ob.formula_smt2()
        text = smt2 if label != "cvc5-cli" else "(set-logic ALL)\n" + smt2
        r = _cli(cmd, text, tmo)
        if r == "unsat":
            ob.status, ob.backend = "proved", label
            return True
        if r == "sat":
            # a sat answer from a CLI back end carries no model here; keep it undecided
            ob.note += " %s says sat (no model extracted)" % label
        return False

    # portfolio: short z3, cvc5, then z3 at the full budget with two configurations, then z3 4.8
    short = max(2.0, timeout_s / 6.0)
    done = (z3_try("z3-api", {}, short)
            or cli_try("cvc5-cli", ["/usr/bin/cvc5", "--tlimit=%d" % int(timeout_s * 1000)], timeout_s)
            or z3_try("z3-api", {}, timeout_s)
            or z3_try("z3-api/seed7", {"random_seed": 7, "smt.arith.solver": 2}, timeout_s)
            or cli_try("z3-4.8-cli", ["/usr/bin/z3", "-T:%d" % int(timeout_s)], timeout_s))
    if not done or ob.status is None:
        ob.status = "unknown"
    ob.secs = time.time() - t0
    return ob


def check_sat(constraints, timeout_s=10):
    s = z3.Solver()
    s.set("timeout", int(timeout_s * 1000))
    for c in constraints:
        s.add(c)
    return s.check()


def sha(text):
    return hashlib.sha256(text.encode("utf-8", "surrogatepass")).hexdigest()[:16]


class UnitResult:
    """Outcome of verifying one subject instantiation (picklable)."""

    def __init__(self, unit_id, subject):
        self.unit_id = unit_id
        self.subject = subject       # dict(file, function, instantiation, sha, route, dropped)
        self.obligations = []        # list of dicts (Obligation.short() + model)
        self.covers = 0
        self.cover_failures = []
        self.error = None            # (kind, text): out-of-subset | stale-contract | checker-error
        self.assumptions = []
        self.wall = 0.0
        self.failed = []             # list of dict(name, model, kind, note)
        self.unknown = []
        self.info = {}
