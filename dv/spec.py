"""Dual-mode specification helpers.

Every helper works on native Python values (used when a counter-model is replayed
against the real code: the spec is then *executed*) and on z3 terms (used when the
spec is part of a verification condition).  Contracts are written only with these
helpers plus the operators + - * == != < <= > >= unary-minus, which mean the same in
both worlds.  Python's `//`, `%`, `and`, `or`, `not`, `if` must NOT be used in
contracts (they mean something else on z3 terms); use floordiv/pymod/And/Or/Not/If.
"""
import z3

_Z = (z3.ExprRef,)


def is_sym(*xs):
    return any(isinstance(x, _Z) for x in xs)


def _b(x):
    """native bool / z3 Bool -> z3 Bool"""
    if isinstance(x, bool):
        return z3.BoolVal(x)
    return x


def And(*xs):
    if len(xs) == 1 and isinstance(xs[0], (list, tuple)):
        xs = tuple(xs[0])
    if is_sym(*xs):
        return z3.And(*[_b(x) for x in xs])
    return all(xs)


def Or(*xs):
    if len(xs) == 1 and isinstance(xs[0], (list, tuple)):
        xs = tuple(xs[0])
    if is_sym(*xs):
        return z3.Or(*[_b(x) for x in xs])
    return any(xs)


def Not(x):
    if is_sym(x):
        return z3.Not(x)
    return not x


def Implies(a, b):
    if is_sym(a, b):
        return z3.Implies(_b(a), _b(b))
    return (not a) or b


def Iff(a, b):
    if is_sym(a, b):
        return _b(a) == _b(b)
    return bool(a) == bool(b)


def If(c, a, b):
    if is_sym(c):
        if not is_sym(a, b) and isinstance(a, bool):
            a, b = z3.BoolVal(a), z3.BoolVal(b)
        return z3.If(c, a, b)
    if isinstance(c, bool) or not is_sym(c):
        return a if c else b


def IntVal(v):
    return z3.IntVal(v)


# ---------------------------------------------------------------- integer arithmetic

def _zz(a, b):
    a = a if is_sym(a) else z3.IntVal(a)
    b = b if is_sym(b) else z3.IntVal(b)
    return a, b, a / b, a % b


# All four division flavours are expressed through z3's own (a div b, a mod b) pair
# (0 <= a mod b < |b|, a == b*(a div b) + a mod b) plus a sign-dependent offset, so that the C
# side and the Python side of an obligation share the same terms (probe: the DivInt/ModInt
# floor-adjustment VCs close in 0.01-0.03 s at 8..64 bit; fresh-variable axiomatisations of the
# remainder went unknown from 16 bit up).

def _zfloordiv(a, b):
    a, b, d, m = _zz(a, b)
    return z3.If(b > 0, d, z3.If(m == 0, d, d - 1))


def floordiv(a, b):
    """Python's a // b on ints (b != 0)."""
    if is_sym(a, b):
        return _zfloordiv(a, b)
    return a // b if b != 0 else 0      # total natively: contracts guard b != 0


def pymod(a, b):
    """Python's a % b on ints (b != 0): result has the sign of b."""
    if is_sym(a, b):
        a, b, d, m = _zz(a, b)
        return z3.If(m == 0, z3.IntVal(0), z3.If(b > 0, m, m + b))
    return a % b if b != 0 else 0


def truncdiv(a, b):
    """C's a / b on ints: rounds toward zero (b != 0)."""
    if is_sym(a, b):
        a, b, d, m = _zz(a, b)
        return z3.If(m == 0, d, z3.If(b > 0, z3.If(a >= 0, d, d + 1), z3.If(a >= 0, d, d - 1)))
    if b == 0:
        return 0
    q = abs(a) // abs(b)
    return q if (a >= 0) == (b > 0) else -q


def truncmod(a, b):
    """C's a % b on ints: a - b*trunc(a/b); sign of a."""
    if is_sym(a, b):
        a, b, d, m = _zz(a, b)
        return z3.If(m == 0, z3.IntVal(0), z3.If(a >= 0, m, z3.If(b > 0, m - b, m + b)))
    return a - b * truncdiv(a, b)


def Abs(a):
    if is_sym(a):
        return z3.If(a >= 0, a, -a)
    return abs(a)


def Min(a, b):
    return If(a <= b, a, b)


def Max(a, b):
    return If(a >= b, a, b)


def pow2(k):
    """2**k for 0 <= k <= 64 (ite chain when symbolic)."""
    if is_sym(k):
        r = z3.IntVal(1 << 64)
        for i in range(63, -1, -1):
            r = z3.If(k == i, z3.IntVal(1 << i), r)
        return r
    return 1 << k


def in_range(x, lo, hi):
    return And(lo <= x, x <= hi)


def wrap(x, bits, signed):
    """two's-complement reduction of a mathematical integer to `bits` bits."""
    M = 1 << bits
    if is_sym(x):
        u = x % M
        if signed:
            return z3.If(u >= (M >> 1), u - M, u)
        return u
    u = x % M
    if signed and u >= (M >> 1):
        u -= M
    return u


def tmin(bits, signed):
    return -(1 << (bits - 1)) if signed else 0


def tmax(bits, signed):
    return (1 << (bits - 1)) - 1 if signed else (1 << bits) - 1


# ---------------------------------------------------------------- slices / ranges (CPython's)

def slice_adjust(start, stop, step, length, has_start=True, has_stop=True):
    """PySlice_AdjustIndices after PySlice_Unpack defaults: returns (start, stop) as
    slice(start,stop,step).indices(length) does.  has_start/has_stop False <=> None."""
    neg = step < 0
    d_start = If(neg, length - 1, 0)
    d_stop = If(neg, -1, length)
    lo = If(neg, -1, 0)
    hi = If(neg, length - 1, length)

    def clamp(v):
        v2 = If(v < 0, v + length, v)
        return If(v < 0, If(v2 < lo, lo, v2), If(v2 > hi, hi, v2))
    s = If(has_start, clamp(start), d_start)
    e = If(has_stop, clamp(stop), d_stop)
    return s, e


def range_len(start, stop, step):
    """len(range(start, stop, step)), step != 0."""
    return If(step > 0,
              If(start < stop, floordiv(stop - start - 1, step) + 1, 0),
              If(stop < start, floordiv(start - stop - 1, -step) + 1, 0))
