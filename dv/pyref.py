"""Reference semantics for loop-free catalogue functions: the Python meaning of the catalogue SOURCE as a z3 term.

L3 units verify the C function the working-tree compiler emits for a catalogue function.  For catalogue functions
inside the subset below, the specification is not written by hand: it is the value CPython's semantics give to the
same source text, obtained here by a direct (continuation-style) evaluation of its `ast`:
    statements   if / elif / else, return, assignment to a local name, pass
    expressions  integer constants, True/False, names, unary - / not, + - *, comparisons (chained; == != < <= > >=,
                 in / not in a tuple/list/set display of expressions), and / or / not, conditional expressions
with Python's rules: chained comparisons are conjunctions evaluated left to right (operands are side-effect free here),
`x in (a, b)` is `x == a or x == b`, ints are unbounded, bools are ints when returned from an int function.
The evaluator is dual-mode (dv.spec helpers): with Python ints as inputs it computes concrete values, and side checks
compare it with CPython executing the same source (`exec`) on a grid every run.
"""
import ast

from .spec import And, Or, Not, If
from .core import OutOfSubset


class _B:
    """a boolean value (kept apart from ints until it is used as one)"""

    def __init__(self, b):
        self.b = b


def _int(v):
    if isinstance(v, _B):
        if isinstance(v.b, bool):
            return 1 if v.b else 0
        return If(v.b, 1, 0)
    return v


def _bool(v):
    if isinstance(v, _B):
        return v.b
    if isinstance(v, bool):
        return v
    return v != 0


_CMP = {ast.Eq: lambda a, b: a == b, ast.NotEq: lambda a, b: a != b, ast.Lt: lambda a, b: a < b, ast.LtE: lambda a, b: a <= b,
        ast.Gt: lambda a, b: a > b, ast.GtE: lambda a, b: a >= b}


def ev(n, env):
    if isinstance(n, ast.Constant):
        if isinstance(n.value, bool):
            return _B(n.value)
        if isinstance(n.value, int):
            return n.value
        raise OutOfSubset("constant %r" % (n.value,))
    if isinstance(n, ast.Name):
        if n.id not in env:
            raise OutOfSubset("name %s" % n.id)
        return env[n.id]
    if isinstance(n, ast.UnaryOp):
        v = ev(n.operand, env)
        if isinstance(n.op, ast.USub):
            return -_int(v)
        if isinstance(n.op, ast.UAdd):
            return _int(v)
        if isinstance(n.op, ast.Not):
            return _B(Not(_bool(v)))
    if isinstance(n, ast.BinOp) and isinstance(n.op, (ast.Add, ast.Sub, ast.Mult)):
        a, b = _int(ev(n.left, env)), _int(ev(n.right, env))
        return a + b if isinstance(n.op, ast.Add) else a - b if isinstance(n.op, ast.Sub) else a * b
    if isinstance(n, ast.BoolOp):
        vals = [ev(v, env) for v in n.values]
        if all(isinstance(v, _B) for v in vals):
            return _B((And if isinstance(n.op, ast.And) else Or)(*[v.b for v in vals]))
        # `a and b` on ints returns an operand: first falsy (and) / first truthy (or), else the last
        out = vals[-1]
        for v in reversed(vals[:-1]):
            out_i, v_i = _int(out), _int(v)
            out = If(_bool(v), out_i, v_i) if isinstance(n.op, ast.And) else If(_bool(v), v_i, out_i)
        return out
    if isinstance(n, ast.Compare):
        left = ev(n.left, env)
        conj = []
        for op, rn in zip(n.ops, n.comparators):
            if isinstance(op, (ast.In, ast.NotIn)):
                if isinstance(rn, ast.Constant) and isinstance(rn.value, bytes):
                    # int in b'...': membership among the byte values
                    elts = sorted(set(rn.value))
                    hit = Or(*[_int(left) == b for b in elts]) if elts else False
                elif not isinstance(rn, (ast.Tuple, ast.List, ast.Set)):
                    raise OutOfSubset("membership in a non-display")
                else:
                    hit = Or(*[_int(left) == _int(ev(e, env)) for e in rn.elts]) if rn.elts else False
                conj.append(hit if isinstance(op, ast.In) else Not(hit))
                right = None
            else:
                right = ev(rn, env)
                conj.append(_CMP[type(op)](_int(left), _int(right)))
            left = right
        return _B(And(*conj) if len(conj) > 1 else conj[0])
    if isinstance(n, ast.Call) and isinstance(n.func, ast.Name) and not n.keywords:
        args = [ev(a, env) for a in n.args]
        f = n.func.id
        if f == "abs" and len(args) == 1:
            v = _int(args[0])
            return If(v >= 0, v, -v)
        if f in ("min", "max") and len(args) >= 2:
            # builtin min / max over positional arguments: the FIRST of equal extremes is returned (values are equal anyway)
            out = _int(args[0])
            for a in args[1:]:
                a = _int(a)
                out = If(a < out, a, out) if f == "min" else If(a > out, a, out)
            return out
        if f == "bool" and len(args) == 1:
            return _B(_bool(args[0]))
        if f == "int" and len(args) == 1:
            return _int(args[0])
        raise OutOfSubset("call to %s" % f)
    if isinstance(n, ast.IfExp):
        c = _bool(ev(n.test, env))
        a, b = ev(n.body, env), ev(n.orelse, env)
        if isinstance(a, _B) and isinstance(b, _B):
            return _B(If(c, a.b, b.b))
        return If(c, _int(a), _int(b))
    raise OutOfSubset("expression %s" % type(n).__name__)


def run(stmts, env):
    """value returned by executing `stmts` (every path must end in a return)"""
    if not stmts:
        raise OutOfSubset("path without return")
    s, rest = stmts[0], stmts[1:]
    if isinstance(s, ast.Return):
        if s.value is None:
            raise OutOfSubset("bare return")
        return _int(ev(s.value, env))
    if isinstance(s, ast.Pass) or (isinstance(s, ast.Expr) and isinstance(s.value, ast.Constant)):
        return run(rest, env)
    if isinstance(s, (ast.Assign, ast.AnnAssign)):
        tgts = s.targets if isinstance(s, ast.Assign) else [s.target]
        if s.value is None:
            return run(rest, env)
        if len(tgts) != 1 or not isinstance(tgts[0], ast.Name):
            raise OutOfSubset("assignment target")
        env2 = dict(env)
        env2[tgts[0].id] = _int(ev(s.value, env))
        return run(rest, env2)
    if isinstance(s, ast.If):
        c = _bool(ev(s.test, env))
        if c is True:
            return run(s.body + rest, env)
        if c is False:
            return run(s.orelse + rest, env)
        return If(c, run(s.body + rest, env), run(s.orelse + rest, env))
    raise OutOfSubset("statement %s" % type(s).__name__)


def python_source(cy_source):
    """the catalogue function as plain Python: `cdef <type> name(<type> a, ...) [except ...]:` -> `def name(a, ...):`,
    `cdef <type> v = e` -> `v = e`, `cdef <type> v` dropped (declarations carry no run-time meaning for ints that fit)"""
    import re
    out = []
    for line in cy_source.splitlines():
        if line.lstrip().startswith("@"):
            continue
        m = re.match(r"^(\s*)c?p?def\s+(?:[\w ]+?\s+)?(\w+)\s*\((.*)\)\s*(?:except[^:]*|noexcept)?\s*:\s*$", line)
        if m:
            params = [p.strip().split()[-1].lstrip("*") for p in m.group(3).split(",") if p.strip()]
            out.append("%sdef %s(%s):" % (m.group(1), m.group(2), ", ".join(params)))
            continue
        m = re.match(r"^(\s*)cdef\s+[\w ]+?\s+(\w+\s*=.*)$", line)
        if m:
            # `cdef long i = -99, n = 0` -> `i = -99; n = 0` (initialisers of the catalogue are plain literals)
            out.append(m.group(1) + "; ".join(d.strip() for d in m.group(2).split(",")))
            continue
        if re.match(r"^\s*cdef\s+[\w ]+?\s+\w+(\s*,\s*\w+)*\s*$", line):
            out.append(re.match(r"^(\s*)", line).group(1) + "pass")
            continue
        out.append(line)
    return "\n".join(out) + "\n"


def spec_of(cy_source, name):
    """(parameter names, fn(*values) -> value): the Python meaning of catalogue function `name`"""
    src = python_source(cy_source)
    tree = ast.parse(src)
    fn = [n for n in tree.body if isinstance(n, ast.FunctionDef) and n.name == name]
    if not fn:
        raise OutOfSubset("no function %s in the catalogue text" % name)
    fn = fn[0]
    params = [a.arg for a in fn.args.args]

    def f(*vals):
        return run(fn.body, dict(zip(params, vals)))
    return params, f, src
