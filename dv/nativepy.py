"""Native replay of static helpers of a generated module that return PyObject*.

The generated C text (the same text the VCs came from) gets one exported entry point appended
    PyObject *dv_entry(long long a0, ...) { return <helper>((T0) a0, ...); }
is built as a shared object with clang (optionally -fsanitize=address,undefined) and is loaded into the
CPython 3.12 of /venv with ctypes.PyDLL; the runner script calls it on every case and prints repr(result) or
the exception type.  A sanitizer abort shows up as a non-zero exit with the last announced case on stderr.
"""
import json
import os
import subprocess

from . import cextract

PY = "/venv/bin/python"

RUNNER = r'''
import ctypes, json, sys
lib = ctypes.PyDLL(sys.argv[1])
f = lib.dv_entry
n = int(sys.argv[2])
f.restype = ctypes.py_object
f.argtypes = [ctypes.c_longlong] * n
for line in sys.stdin:
    case = json.loads(line)
    sys.stderr.write("CASE %s\n" % line.strip()); sys.stderr.flush()
    try:
        r = f(*case)
        out = ["ok", r if isinstance(r, (str, int, float)) else repr(r)]
    except BaseException as e:
        out = ["exc", type(e).__name__]
    print(json.dumps(out)); sys.stdout.flush()
'''


def call_helper(ctext, fname, ctypes_, cases, defines=(), sanitize=True, timeout=120, entry_body=None):
    """ctypes_: C types of the helper's parameters (all integer kinds); cases: list of int tuples.
    entry_body: C statements of the entry point in terms of a0.. (default: return fname((T0) a0, ...)).
    -> {"results": [[kind, value], ...], "crash": {...} | None} or {"build_error": ...}"""
    params = ", ".join("long long a%d" % i for i in range(len(ctypes_)))
    args = ", ".join("(%s) a%d" % (t, i) for i, t in enumerate(ctypes_))
    body = entry_body or "return %s(%s);" % (fname, args)
    entry = "\n__attribute__((visibility(\"default\"))) PyObject *dv_entry(%s) { %s }\n" % (params, body)
    cfile = cextract.write_tu(ctext + entry, "nativepy.c")
    so = cfile[:-2] + ".so"
    san = ["-fsanitize=address,undefined", "-fno-sanitize-recover=all", "-shared-libasan"] if sanitize else []
    cmd = ["clang", "-shared", "-fPIC", "-O0", "-g0", "-w", "-I" + cextract.PY_INCLUDE] + ["-D" + d for d in defines] + san + [cfile, "-o", so]
    p = subprocess.run(cmd, capture_output=True, text=True)
    if p.returncode != 0:
        return {"build_error": p.stderr[-1500:]}
    env = dict(os.environ)
    if sanitize:
        rt = subprocess.run(["clang", "-print-file-name=libclang_rt.asan-x86_64.so"], capture_output=True, text=True).stdout.strip()
        env["LD_PRELOAD"] = rt
        env["ASAN_OPTIONS"] = "detect_leaks=0:abort_on_error=0:exitcode=99"
        env["UBSAN_OPTIONS"] = "halt_on_error=1:exitcode=98"
    script = os.path.join(os.path.dirname(cfile), "runner.py")
    with open(script, "w") as f:
        f.write(RUNNER)
    inp = "".join(json.dumps(list(c)) + "\n" for c in cases)
    try:
        r = subprocess.run([PY, script, so, str(len(ctypes_))], input=inp, capture_output=True, text=True, timeout=timeout, env=env)
    except subprocess.TimeoutExpired:
        return {"timeout": True}
    results = [json.loads(x) for x in r.stdout.splitlines() if x.startswith("[")]
    crash = None
    if r.returncode != 0:
        last = [ln for ln in r.stderr.splitlines() if ln.startswith("CASE ")]
        report = [ln for ln in r.stderr.splitlines() if "ERROR: AddressSanitizer" in ln or "runtime error" in ln or "SUMMARY" in ln]
        crash = {"exit": r.returncode, "case": json.loads(last[-1][5:]) if last else None, "report": report[:4] or r.stderr[-400:]}
    return {"results": results, "crash": crash}
