"""Units for Python subjects: one unit = one function/method of a /repo .py file verified against its contract."""
import ast
import fnmatch
import importlib.machinery
import importlib.util
import os
import sys
import time
import traceback
import z3

from .core import discharge, check_sat, UnitResult, sha, OutOfSubset, StaleContract
from .pyfe import (PyExec, PState, PInt, PBool, PRef, PTuple, PNone, PStr, PAny, POpt, Env, Callee, Heap,
                   module_constants, find_function)
from . import cextract

REPO = cextract.REPO


def load_source_module(relpath, name=None):
    """import a /repo module from its .py text (never a compiled .so), under a private name"""
    path = os.path.join(cextract.REPO, relpath)
    name = name or ("dvsubject_" + relpath.replace("/", "_").replace(".py", ""))
    if cextract.REPO not in sys.path:
        sys.path.insert(0, cextract.REPO)
    loader = importlib.machinery.SourceFileLoader(name, path)
    spec = importlib.util.spec_from_loader(name, loader)
    mod = importlib.util.module_from_spec(spec)
    # relative imports inside the subject resolve against its real package (whose modules are also .py here)
    mod.__package__ = os.path.dirname(relpath).replace("/", ".")
    loader.exec_module(mod)
    return mod


def find_fragment(fn, src, start_re, end_re):
    """innermost statement list of `fn` containing a statement whose first line matches start_re; the slice from
    there to the first later statement (same list) whose first line matches end_re, inclusive"""
    import re
    lines = src.splitlines()

    def first_line(node):
        return lines[node.lineno - 1].strip()
    best = None

    def walk(stmts):
        nonlocal best
        for i, s_ in enumerate(stmts):
            if re.search(start_re, first_line(s_)):
                for j in range(i, len(stmts)):
                    if re.search(end_re, first_line(stmts[j])):
                        best = stmts[i:j + 1]
                        break
            for fld in ("body", "orelse", "finalbody"):
                sub = getattr(s_, fld, None)
                if isinstance(sub, list) and sub and isinstance(sub[0], ast.stmt) and not isinstance(s_, ast.FunctionDef):
                    walk(sub)
    walk(fn.body)
    return best


class PyUnit:
    kind = "py"

    def __init__(self, uid, props, file, qualname, params, requires=None, ensures=None, raises=None, callees=None,
                 options=None, native=None, search=None, subject=None, measured=None, consts=None):
        self.uid, self.props, self.file, self.qualname = uid, props, file, qualname
        self.params = params              # [(name, kind)]
        self.requires, self.ensures = requires or [], ensures or []
        self.raises = raises or {}        # exception name -> fn(e) Bool: when raising it is allowed
        self.callees = callees or {}
        self.options = options or {}
        self.native = native              # fn(inputs dict, obligation name) -> replay record
        self.search = search              # fn(seed) -> replay record | None
        self.subject = subject or {}
        self.measured = measured or []
        self.consts = consts
        self.kf = []

    def run(self, timeout_s=30):
        t0 = time.time()
        res = UnitResult(self.uid, dict(self.subject))
        try:
            self._run(res, timeout_s)
        except OutOfSubset as e:
            res.error = ("out-of-subset", str(e))
        except StaleContract as e:
            res.error = ("stale-contract", str(e))
        except Exception:
            res.error = ("checker-error", traceback.format_exc())
        res.wall = time.time() - t0
        return res

    def make_arg(self, ex, st, e, name, kind):
        if kind == "int":
            t = z3.Int(name)
            setattr(e, name, t)
            return PInt(t)
        if kind == "bool":
            t = z3.Bool(name)
            setattr(e, name, t)
            return PBool(t)
        if kind.startswith("tuple:"):
            parts = kind[6:].split(",")
            items = []
            terms = []
            for i, p in enumerate(parts):
                sub = self.make_arg(ex, st, Env(), "%s_%d" % (name, i), p)
                items.append(sub)
                terms.append(sub.t if isinstance(sub, PInt) else sub.addr)
            setattr(e, name, tuple(terms))
            return PTuple(items)
        if kind.startswith("ref:") or kind == "strbuilder":
            cls = kind[4:] if kind.startswith("ref:") else "strbuilder"
            t = z3.Int(name)
            setattr(e, name, t)
            return PRef(cls, t)
        if kind == "any":
            t = z3.Int(name)
            setattr(e, name, t)
            return PAny(t)
        if kind.startswith("const:"):
            # a parameter fixed to one string constant by this unit (one unit per value): its text is known to the front end
            from .pyfe import intern_id
            text = kind[6:]
            setattr(e, name, intern_id(text))
            return PStr([z3.IntVal(ord(c)) for c in text], text=text)
        if kind == "str":
            # text of unbounded length: characters <name>.chars[i], 0 <= i < <name>.len
            from .pyfe import PSeq
            arr = z3.Array(name + ".chars", z3.IntSort(), z3.IntSort())
            ln = z3.Int(name + ".len")
            st.path.append(ln >= 0)
            ev = Env()
            ev.chars, ev.len = arr, ln
            setattr(e, name, ev)
            return PSeq(arr, z3.IntVal(0), ln)
        raise OutOfSubset("parameter kind %s" % kind)

    def _run(self, res, timeout_s):
        path = os.path.join(cextract.REPO, self.file)
        with open(path) as f:
            src = f.read()
        pre_dropped = []
        if self.options.get("source_transform"):
            # a .pyx source: the named functions are cut out of the file and their C declarations removed, mechanically, on every run
            src, pre_dropped = self.options["source_transform"](src)
        tree = ast.parse(src)
        fn = find_function(tree, self.qualname)
        if fn is None:
            raise StaleContract("%s not found in %s" % (self.qualname, self.file))
        ftext = ast.get_source_segment(src, fn) or ""
        consts = module_constants(tree)
        if self.consts:
            consts.update(self.consts)
        opts = self.options
        if callable(opts.get("invariants")):
            # structural binding: the contract reads the roles of locals and loops off the function's ast (no local is named in the contract)
            opts = dict(opts, invariants=opts["invariants"](fn))
        ex = PyExec(tree, self.qualname, consts=consts, callees=self.callees, prefix=self.uid + "/", options=opts)
        st = PState()
        e = Env()
        self._ex = ex
        frag = self.options.get("fragment")
        names = ex.param_names()
        if frag is None and names != [n for n, _ in self.params]:
            raise StaleContract("parameters of %s are %s, contract describes %s" % (self.qualname, names, [n for n, _ in self.params]))
        args = [self.make_arg(ex, st, e, n, k) for n, k in self.params]
        # objects passed in exist already: their addresses are below the allocation pointer
        st.heap.alloc = z3.Int("H0.alloc")
        for a in args:
            if isinstance(a, PRef):
                st.path.append(z3.And(a.addr >= 0, a.addr < st.heap.alloc))
        h0 = st.heap
        e.h0 = h0.copy()
        e.h = e.h0
        # materialise the initial heap components the contract mentions
        pre = [f(e) for _, f in self.requires]
        st.heap = e.h0.copy()
        ex.opt["allow_exc"] = {k: f(e) for k, f in self.raises.items()}
        st.path.extend(pre)
        if self.options.get("tuple_keys"):
            from .pyfe import TUPLE_AXIOMS
            st.path.append(TUPLE_AXIOMS)
        if check_sat(st.path) != z3.sat:
            res.cover_failures.append("precondition of %s is not satisfiable (or undecided)" % self.uid)
        else:
            res.covers += 1
        if frag is None:
            outs = ex.run(st, args)
        else:
            # fragment subject: a contiguous statement range inside the function, located by source anchors on
            # every run; the "parameters" are the locals live at its entry (typed by the sidecar)
            if "select" in frag:
                # structural selection: the contract picks the statement range (and the roles of locals) off the function's ast;
                # it returns (statements, roles) or raises StaleContract
                stmts, roles = frag["select"](fn)
                e.roles = roles
            else:
                stmts = find_fragment(fn, src, frag["start"], frag["end"])
            if stmts is None:
                raise StaleContract("fragment %r .. %r not found in %s" % (frag.get("start"), frag.get("end"), self.qualname))
            ftext = "\n".join(ast.get_source_segment(src, x) or "" for x in stmts)
            for (nm, _k), a in zip(self.params, args):
                st.vars[nm] = a
            outs = []
            for o in ex.exec_block(st, stmts):
                if o[0] == "normal":
                    o[1].vars["$fell_through"] = PBool(True)        # the fragment ran to its end (no return / raise inside it)
                outs.append(("return", o[1], PNone()) if o[0] == "normal" else ("raise", o[1], o[2]) if o[0] == "raise"
                            else ("return", o[1], o[2]) if o[0] == "return" else ("return", o[1], PNone()))
        feasible = 0
        for kind, s, v in outs:
            e2 = Env(**e.__dict__)
            e2.h = s.heap
            e2.vars = s.vars            # final locals incl. ghost state (PGhost)
            if kind == "return":
                e2.result = self.result_term(v)
                for label, f in self.ensures:
                    ex.oblige(s, "post", label, f(e2), None)
                for label, f in self.measured:
                    ex.oblige(s, "measured", label, f(e2), None)
            else:
                allowed = self.raises.get(v)
                ex.oblige(s, "exc", "raise.%s" % v, allowed(e2) if allowed else False, None,
                          note="explicit raise reached")
            if check_sat(s.path) == z3.sat:
                feasible += 1
        res.covers += feasible
        if not outs or feasible == 0:
            res.cover_failures.append("no feasible exit path")
        res.subject.update(file=self.file, function=self.qualname, sha256_16=sha(ftext),
                           route="python ast of the function as found in the working tree",
                           dropped=sorted(set(ex.dropped) | set(pre_dropped)))
        res.assumptions = sorted(ex.assumptions)
        self._finish(res, ex.obligations, e, timeout_s)

    def result_term(self, v):
        if isinstance(v, (PInt, PAny)):
            return v.t
        if isinstance(v, PBool):
            return v.b
        if isinstance(v, PRef):
            return v.addr
        if isinstance(v, PTuple):
            return tuple(self.result_term(x) for x in v.items)
        if isinstance(v, PNone):
            return None
        if isinstance(v, POpt):
            return v
        if isinstance(v, PStr):
            return tuple(v.codes)
        if type(v).__name__ == "PSeq":
            return ("seq", v.off, v.ln)
        raise OutOfSubset("result kind %s" % v.kind)

    def _finish(self, res, obligations, e, timeout_s):
        for ob in obligations:
            kfids = []
            for glob, region, kfid in self.kf:
                if fnmatch.fnmatch(ob.name, glob):
                    if region is not None:
                        ob.path.append(z3.Not(region(e)))
                    kfids.append((kfid, region is None))
            if ob.status is None:
                discharge(ob, timeout_s)
            d = ob.short()
            d["model"], d["note"], d["kf"] = ob.model, ob.note, [k for k, _ in kfids]
            if ob.status == "failed" and any(whole for _, whole in kfids):
                d["status"] = "known-finding"
            res.obligations.append(d)
            if ob.kind == "measured":
                continue
            if d["status"] == "failed":
                try:
                    d["replay"] = self.replay(ob.model, ob)
                except Exception:
                    d["replay"] = {"error": traceback.format_exc()[-1500:]}
            if (d["status"] == "failed" and not (d.get("replay") or {}).get("confirmed")) or d["status"] == "unknown":
                if self.search is not None:
                    try:
                        found = self.search(int(os.environ.get("VERIF_SEED", "0") or 0), ob.name)
                    except Exception:
                        found = {"error": traceback.format_exc()[-1500:]}
                    if found and found.get("confirmed"):
                        if d["status"] == "unknown":
                            d["note"] = (d.get("note") or "") + " solver undecided; failing input found by concrete search"
                        d["status"] = "failed"
                        d["replay"] = found
                    elif d["status"] == "failed":
                        d["replay"]["concrete_search"] = found

    def replay(self, model, ob=None):
        if self.native is None:
            return {"confirmed": False, "note": "no native replay defined for this unit"}
        rep = self.native(model or {}, ob.name if ob is not None else None)
        rep.setdefault("obligation", ob.name if ob is not None else None)
        return rep


def guard_prefix(fn, allowed_calls=(), stop=None):
    """Structural fragment selector: the longest prefix of the function body (docstring skipped) whose statements are 'decision code' -
    assignments, if / elif / else, return, assert, pass, expression statements - and contain no call other than to the names / attribute
    names in `allowed_calls` (and never a loop, try or with).  `stop(stmt)` may end the prefix earlier (the statement for which it first
    answers True is the last one included).  What follows the prefix (node construction, code generation) is not part of the subject."""
    ok_stmt = (ast.Assign, ast.AugAssign, ast.AnnAssign, ast.If, ast.Return, ast.Assert, ast.Pass, ast.Expr)

    def callee_name(c):
        f = c.func
        return f.id if isinstance(f, ast.Name) else f.attr if isinstance(f, ast.Attribute) else None

    def decision(s):
        for n in ast.walk(s):
            if isinstance(n, ast.stmt) and not isinstance(n, ok_stmt):
                return False
            if isinstance(n, ast.Call) and callee_name(n) not in allowed_calls:
                return False
            if isinstance(n, (ast.ListComp, ast.GeneratorExp, ast.DictComp, ast.SetComp, ast.Lambda)):
                return False
        return True
    body = list(fn.body)
    if body and isinstance(body[0], ast.Expr) and isinstance(body[0].value, ast.Constant) and isinstance(body[0].value.value, str):
        body = body[1:]
    out = []
    for s in body:
        if not decision(s):
            break
        out.append(s)
        if stop is not None and stop(s):
            break
    return out
