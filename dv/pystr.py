"""Abstract model of CPython str objects for C subjects that build strings (C18 kernels).

A str object is an identity (as in dv/pyobj.py) with
    is_str(o)                  exact str
    kind(o)                    ghost: 1 = described by its code points, 2 = described by its UTF-8 encoding
    slen(o), cps(o)[i]         kind 1: number of code points, code point i
    u8len(o), u8(o)[i]         kind 2: number of bytes and byte i (0..255) of the buffer handed to PyUnicode_DecodeUTF8
ASSUMED C-API contracts (listed in the evidence of every unit using this module):
    PyUnicode_DecodeLatin1(p, n, NULL)   reads p[0..n) (obligation: inside the object); result: code point i = (unsigned char) p[i]
    PyUnicode_DecodeUTF8(p, n, NULL)     reads p[0..n); result: THE str whose UTF-8 encoding is those bytes (UTF-8 is injective;
                                         the contracts compare the buffer with the RFC 3629 encoding of the expected text)
    PyUnicode_FromOrdinal(v)             0 <= v <= 0x10FFFF: one-character str; otherwise NULL with ValueError
    PySequence_Repeat(s, n) on a one-character str, PyUnicode_Concat(a, b): the obvious code point sequences
    PyUnicode_New(n, maxchar) / PyUnicode_DATA / PyUnicode_WRITE(1BYTE_KIND, data, i, ch): a fresh str of n one-byte slots;
        every write must hit a slot in [0, n) (obligation) with ch <= maxchar (obligation)
Allocation never fails (as in dv/pyobj.py).
"""
import z3

from .cfe import CV, Ptr, node_type, parse_type, OutOfSubset, from_bool
from .l3 import ERRS
from .pyobj import CExecPyObj

I = z3.IntSort()
B = z3.BoolSort()
A = z3.ArraySort(I, I)
is_str = z3.Function("is_exact_str", I, B)
kind = z3.Function("str_kind", I, I)
slen = z3.Function("str_len", I, I)
cps = z3.Function("str_cps", I, A)
u8len = z3.Function("str_u8len", I, I)
u8 = z3.Function("str_u8", I, A)


def utf8_len(v):
    return z3.If(v < 0x80, 1, z3.If(v < 0x800, 2, z3.If(v < 0x10000, 3, 4)))


def utf8_byte(v, j):
    """byte j (0-based, unsigned) of the RFC 3629 encoding of code point v (0 <= v <= 0x10FFFF); j may be symbolic"""
    one = [v]
    two = [0xC0 + v / 64, 0x80 + v % 64]
    three = [0xE0 + v / 4096, 0x80 + (v / 64) % 64, 0x80 + v % 64]
    four = [0xF0 + v / 262144, 0x80 + (v / 4096) % 64, 0x80 + (v / 64) % 64, 0x80 + v % 64]

    def pick(lst):
        t = lst[-1]
        for k in range(len(lst) - 2, -1, -1):
            t = z3.If(j == k, lst[k], t)
        return t
    return z3.If(v < 0x80, pick(one), z3.If(v < 0x800, pick(two), z3.If(v < 0x10000, pick(three), pick(four))))


def utf8_native(v):
    if v < 0x80:
        return [v]
    if v < 0x800:
        return [0xC0 + v // 64, 0x80 + v % 64]
    if v < 0x10000:
        return [0xE0 + v // 4096, 0x80 + (v // 64) % 64, 0x80 + v % 64]
    return [0xF0 + v // 262144, 0x80 + (v // 4096) % 64, 0x80 + (v // 64) % 64, 0x80 + v % 64]


def u8of(t):
    """unsigned value of a byte stored as (possibly signed) char"""
    return t % 256


class CExecPyStr(CExecPyObj):
    ENUMS = {"PyUnicode_1BYTE_KIND": 1, "PyUnicode_2BYTE_KIND": 2, "PyUnicode_4BYTE_KIND": 4}

    def enum_value(self, rd):
        if rd.get("name") in self.ENUMS:
            self.assumptions.add("enum PyUnicode_Kind values as in CPython 3.12's unicodeobject.h (1, 2, 4)")
            return self.ENUMS[rd["name"]]
        return CExecPyObj.enum_value(self, rd)

    def new_str(self, st, ty, base="new_str"):
        r = self.obj(st, ty, base)
        st.path.append(is_str(r.off))
        return r

    def _readable(self, st, p, n_, name, node):
        if not (isinstance(p, Ptr) and p.obj in st.objs and st.objs[p.obj].length is not None):
            raise OutOfSubset("%s on a non-modelled buffer" % name)
        o = st.objs[p.obj]
        self.oblige(st, "ub", "%s.reads_inside.%s" % (name, p.obj.split("#")[0]),
                    z3.And(n_ >= 0, p.off >= 0, p.off + n_ <= o.length), node)
        i = z3.Int("i!" + name)
        arr = st.mem[p.obj]
        return z3.Lambda([i], u8of(z3.Select(arr, i + p.off)))

    def call(self, st, name, argn, n):
        ty = node_type(n) if n.get("type") else None
        if name in ("memset", "__builtin_memset", "__builtin___memset_chk"):
            p, c, cnt = self.ev(st, argn[0]), self.ev(st, argn[1]), self.ev(st, argn[2])
            for extra in argn[3:]:
                self.ev(st, extra)
            if not (isinstance(p, Ptr) and p.obj in st.objs and st.objs[p.obj].length is not None):
                raise OutOfSubset("memset on a non-modelled pointer")
            o = st.objs[p.obj]
            n_ = cnt.t
            self.oblige(st, "ub", "memset.in_bounds." + p.obj.split("#")[0], z3.And(n_ >= 0, p.off >= 0, p.off + n_ <= o.length), n)
            self.assumptions.add("memset(p, c, n) sets n bytes to (unsigned char) c (C11 7.24.6.1); char elements read it back as (char)")
            b = c.t % 256
            val = z3.If(b >= 128, b - 256, b) if o.elem.signed else b
            i = z3.Int("i!memset")
            self.__dict__.setdefault("written", set()).add(p.obj)
            old = st.mem[p.obj]
            st.mem[p.obj] = z3.Lambda([i], z3.If(z3.And(i >= p.off, i < p.off + n_), val, z3.Select(old, i)))
            return p
        if name == "PyUnicode_DecodeLatin1":
            p, cnt = self.ev(st, argn[0]), self.ev(st, argn[1])
            self.ev(st, argn[2])
            lam = self._readable(st, p, cnt.t, name, n)
            r = self.new_str(st, ty)
            st.path.append(z3.And(kind(r.off) == 1, slen(r.off) == cnt.t, cps(r.off) == lam))
            self.assumptions.add("PyUnicode_DecodeLatin1(p, n, NULL) returns the str with code points (unsigned char) p[i], i < n")
            return r
        if name == "PyUnicode_DecodeUTF8":
            p, cnt = self.ev(st, argn[0]), self.ev(st, argn[1])
            self.ev(st, argn[2])
            lam = self._readable(st, p, cnt.t, name, n)
            r = self.new_str(st, ty)
            st.path.append(z3.And(kind(r.off) == 2, u8len(r.off) == cnt.t, u8(r.off) == lam))
            self.assumptions.add("PyUnicode_DecodeUTF8(p, n, NULL) returns the str whose UTF-8 encoding is p[0..n) (UTF-8 is injective); "
                                 "the contract compares the buffer with the RFC 3629 encoding of the expected text")
            return r
        if name == "PyUnicode_FromOrdinal":
            v = self.ev(st, argn[0])
            ok = z3.And(v.t >= 0, v.t <= 0x10FFFF)
            # the failing case (NULL + ValueError) is not modelled: reaching it leaves the subset (undecided, not a violation)
            self.oblige(st, "subset", "PyUnicode_FromOrdinal.argument_in_range", ok, n)
            r = self.new_str(st, ty)
            st.path.append(z3.And(kind(r.off) == 1, slen(r.off) == 1, z3.Select(cps(r.off), 0) == v.t))
            self.assumptions.add("PyUnicode_FromOrdinal(v) returns the one-character str chr(v) for 0 <= v <= 0x10FFFF")
            return r
        if name == "PySequence_Repeat":
            s, cnt = self.ev(st, argn[0]), self.ev(st, argn[1])
            so = self.oid(s)
            self.oblige(st, "subset", "PySequence_Repeat.one_character_str", z3.And(is_str(so), kind(so) == 1, slen(so) == 1), n)
            r = self.new_str(st, ty)
            cnt0 = z3.If(cnt.t > 0, cnt.t, 0)
            st.path.append(z3.And(kind(r.off) == 1, slen(r.off) == cnt0, cps(r.off) == z3.K(I, z3.Select(cps(so), 0))))
            self.assumptions.add("PySequence_Repeat(s, n) on a one-character str returns max(n, 0) copies of the character")
            return r
        if name == "PyUnicode_Concat":
            a, b = self.oid(self.ev(st, argn[0])), self.oid(self.ev(st, argn[1]))
            self.oblige(st, "subset", "PyUnicode_Concat.code_point_strs", z3.And(is_str(a), is_str(b), kind(a) == 1, kind(b) == 1), n)
            r = self.new_str(st, ty)
            i = z3.Int("i!concat")
            st.path.append(z3.And(kind(r.off) == 1, slen(r.off) == slen(a) + slen(b),
                                  cps(r.off) == z3.Lambda([i], z3.If(i < slen(a), z3.Select(cps(a), i), z3.Select(cps(b), i - slen(a))))))
            self.assumptions.add("PyUnicode_Concat(a, b) returns the concatenation of the two code point sequences")
            return r
        if name == "PyUnicode_New":
            cnt, mx = self.ev(st, argn[0]), self.ev(st, argn[1])
            self.oblige(st, "pre", "PyUnicode_New.size_not_negative", cnt.t >= 0, n)
            r = self.new_str(st, ty)
            nm = "ustr#%d" % self.fresh_n
            self.new_obj(st, nm, parse_type("unsigned char"), cnt.t)
            self.__dict__.setdefault("_ustr", {})[r.off.get_id()] = (nm, mx.t)
            st.path.append(z3.And(kind(r.off) == 1, slen(r.off) == cnt.t))
            self.assumptions.add("PyUnicode_New(n, maxchar) returns a new str with n writable one-byte slots (maxchar < 256)")
            return r
        if name in ("PyUnicode_DATA", "PyUnicode_1BYTE_DATA", "_PyUnicode_COMPACT_DATA"):
            o = self.oid(self.ev(st, argn[0]))
            ent = self.__dict__.get("_ustr", {}).get(o.get_id())
            if ent is None:
                raise OutOfSubset("PyUnicode_DATA of a str not created by PyUnicode_New in this function")
            return Ptr(parse_type("unsigned char *"), ent[0], z3.IntVal(0))
        if name == "PyUnicode_WRITE":
            k, data, idx, ch = [self.ev(st, a) for a in argn]
            if not (isinstance(data, Ptr) and isinstance(data.obj, str) and data.obj.startswith("ustr#")):
                raise OutOfSubset("PyUnicode_WRITE on foreign data")
            if not (z3.is_int_value(z3.simplify(k.t)) and z3.simplify(k.t).as_long() == 1):
                raise OutOfSubset("PyUnicode_WRITE with a kind other than PyUnicode_1BYTE_KIND")
            o = st.objs[data.obj]
            mx = [m for (nm, m) in self.__dict__.get("_ustr", {}).values() if nm == data.obj][0]
            self.oblige(st, "ub", "PyUnicode_WRITE.index_inside_the_new_str", z3.And(data.off + idx.t >= 0, data.off + idx.t < o.length), n)
            self.oblige(st, "pre", "PyUnicode_WRITE.character_not_above_maxchar", z3.And(ch.t >= 0, ch.t <= mx), n)
            st.mem[data.obj] = z3.Store(st.mem[data.obj], data.off + idx.t, ch.t)
            self.__dict__.setdefault("written", set()).add(data.obj)
            return None
        return CExecPyObj.call(self, st, name, argn, n)

    def final_cps(self, st, o):
        """code points of a str built with PyUnicode_New/WRITE in this function: the final buffer contents"""
        ent = self.__dict__.get("_ustr", {}).get(o.get_id())
        return st.mem[ent[0]] if ent else None
