"""Check driver: ./check <property> [--tier quick|thorough] [--replay file]

exit 0  every obligation generated from /repo's current text was discharged (known findings printed)
exit 1  VIOLATION property=<id> replay=<path> [no-failing-input-found]
exit 2  UNDECIDED (unknown / timeout / out-of-subset / stale contract / vacuous)
exit 3  CHECKER-ERROR
"""
import argparse
import importlib
import json
import os
import sys
import time
import traceback
from concurrent.futures import ProcessPoolExecutor, as_completed

ROOT = os.path.dirname(os.path.dirname(os.path.abspath(__file__)))
sys.path.insert(0, ROOT)

from dv import core  # noqa: E402


def load_known_findings():
    p = os.path.join(ROOT, "known_findings.json")
    if not os.path.exists(p):
        return {"findings": [], "fixed": []}
    with open(p) as f:
        return json.load(f)


def contract_modules(prop):
    """contract modules whose units serve `prop`."""
    mods = []
    cdir = os.path.join(ROOT, "contracts")
    for fn in sorted(os.listdir(cdir)):
        if fn.endswith(".py") and not fn.startswith("_"):
            m = importlib.import_module("contracts." + fn[:-3])
            if prop in getattr(m, "SERVES", ()):
                mods.append(m)
    return mods


def _run_unit(modname, uid, tier, prop, kf_entries, timeout_s):
    m = importlib.import_module(modname)
    for u in m.units(tier):
        if u.uid == uid:
            regions = getattr(m, "REGIONS", {})
            u.kf = []
            for k in kf_entries:
                import fnmatch as _fn
                if not _fn.fnmatch(u.uid, k["obligation"].split("/")[0]):
                    continue            # finding of another unit
                reg = regions.get(k.get("region_id")) if k.get("region_id") else None
                if k.get("region_id") and reg is None:
                    raise RuntimeError("known finding %s names unknown region %s" % (k["id"], k["region_id"]))
                u.kf.append((k["obligation"], reg, k["id"]))
            return u.run(timeout_s)
    raise RuntimeError("unit %s not found in %s" % (uid, modname))


def main(argv=None):
    ap = argparse.ArgumentParser()
    ap.add_argument("prop")
    ap.add_argument("--tier", default=os.environ.get("VERIF_TIER", "quick"))
    ap.add_argument("--replay")
    ap.add_argument("--jobs", type=int, default=int(os.environ.get("DV_JOBS", "16")))
    ap.add_argument("--only", default=None, help="substring filter on unit ids (debugging)")
    ap.add_argument("-v", action="store_true")
    a = ap.parse_args(argv)
    prop, tier = a.prop, a.tier
    seed = int(os.environ.get("VERIF_SEED", "0") or 0)
    t0 = time.time()
    try:
        if a.replay:
            return do_replay(prop, a.replay)
        return run_check(prop, tier, seed, a, t0)
    except SystemExit:
        raise
    except Exception:
        print("CHECKER-ERROR property=%s\n%s" % (prop, traceback.format_exc()))
        return 3


def run_check(prop, tier, seed, a, t0):
    timeout_s = core.QUICK_TIMEOUT_S if tier == "quick" else max(core.QUICK_TIMEOUT_S, 120)
    kf = load_known_findings()
    kf_entries = [k for k in kf.get("findings", []) if k["property"] == prop]
    mods = contract_modules(prop)
    if not mods:
        print("CHECKER-ERROR property=%s: no contract module serves it" % prop)
        return 3
    jobs = []
    for m in mods:
        for u in m.units(tier):
            if prop in u.props and (a.only is None or a.only in u.uid):
                jobs.append((m.__name__, u.uid, u.props[prop]))
    # warm the caches that forked workers inherit (working-tree compiler import, module preamble)
    from dv import cextract
    try:
        cextract.preamble()
    except Exception:
        pass
    results = []
    with ProcessPoolExecutor(max_workers=max(1, min(a.jobs, len(jobs) or 1))) as pool:
        futs = {pool.submit(_run_unit, mn, uid, tier, prop, kf_entries, timeout_s): (mn, uid, kinds)
                for mn, uid, kinds in jobs}
        for f in as_completed(futs):
            mn, uid, kinds = futs[f]
            try:
                r = f.result()
            except Exception:
                r = core.UnitResult(uid, {})
                r.error = ("checker-error", traceback.format_exc())
            results.append((r, kinds))
    results.sort(key=lambda rk: rk[0].unit_id)
    # native side checks of the contract modules (spec validation, known-finding witnesses)
    extra = []
    for m in mods:
        if hasattr(m, "side_checks"):
            extra.extend(m.side_checks(prop, tier, seed, kf_entries))
    return report(prop, tier, seed, results, extra, kf_entries, a, t0)


def report(prop, tier, seed, results, extra, kf_entries, a, t0):
    obligations = discharged = 0
    failed, unknown, errors, vac = [], [], [], []
    measured = []
    backends = {}
    solver_s = 0.0
    functions = []
    assumptions = set()
    samples = []
    kf_hit = {}
    for r, kinds in results:
        functions.append(dict(r.subject, unit=r.unit_id, wall_s=round(r.wall, 2),
                              covers=r.covers, obligations=len(r.obligations)))
        if r.error:
            errors.append((r.unit_id, r.error))
            continue
        for c in r.cover_failures:
            vac.append((r.unit_id, c))
        assumptions.update(r.assumptions)
        n_here = 0
        for ob in r.obligations:
            if ob["kind"] == "measured":
                measured.append(ob)
                continue
            if kinds is not None and ob["kind"] not in kinds:
                continue
            n_here += 1
            if ob["status"] != "known-finding":
                # an obligation filed as a whole under a recorded finding is reported separately (known_finding_obligations):
                # it is neither claimed nor counted as an obligation of the proof
                obligations += 1
            solver_s += ob["secs"]
            for k in ob.get("kf", []):
                kf_hit.setdefault(k, []).append(ob["name"])
            if ob["status"] == "proved":
                discharged += 1
                backends[ob["backend"]] = backends.get(ob["backend"], 0) + 1
                if len(samples) < 6 and ob["backend"] != "simplify":
                    samples.append({k: ob[k] for k in ("name", "goal", "backend", "secs")})
            elif ob["status"] == "known-finding":
                pass
            elif ob["status"] == "failed" and ob["kind"] == "subset":
                # a modelling-limit obligation (e.g. "branch with an unmodelled construct is unreachable") that
                # does not hold means the subject left the verifiable subset: undecided, never a violation
                ob["note"] = (ob.get("note") or "") + " [modelling limit reached]"
                unknown.append((r.unit_id, ob))
            elif ob["status"] == "failed" and ob["kind"] == "inv" and not (ob.get("replay") or {}).get("confirmed"):
                # the loop invariant supplied by the CONTRACT is not inductive for this code and no failing input was found on
                # the real code: the invariant (an artefact of the proof, not part of the property) does not fit - e.g. after a
                # behaviour-preserving restructuring of the loop.  Undecided, not a violation; a real defect in the loop is
                # reported through the native replay / concrete search (confirmed) or through a failed postcondition.
                ob["note"] = (ob.get("note") or "") + " [contract invariant does not fit this loop; no failing input on the real code]"
                unknown.append((r.unit_id, ob))
            elif ob["status"] == "failed":
                failed.append((r.unit_id, ob))
            else:
                unknown.append((r.unit_id, ob))
        if n_here == 0:
            if any(ob["kind"] != "measured" for ob in r.obligations):
                # the unit has obligations, none of the kinds this property collects (e.g. an unsigned
                # instantiation has no signed-overflow obligation for C36): it contributes nothing here
                functions.pop()
            else:
                vac.append((r.unit_id, "no obligation generated"))
    lines = []
    rc = 0
    # known findings: print those whose witness still fails natively
    kf_lines = []
    for x in extra:
        if x.get("kind") == "known-finding-witness":
            if x.get("still_fails"):
                kf_lines.append("KNOWN-FINDING: property=%s %s" % (prop, x["text"]))
        elif x.get("kind") == "side-check-failure":
            errors.append((x.get("name", "side-check"), ("checker-error", x.get("text", ""))))
        elif x.get("kind") == "bounded-violation":
            # a bounded stand-in found a concrete failing input on the real code
            failed.append(("bounded:" + x.get("name", ""), {
                "name": "bounded/" + x.get("name", ""), "kind": "bounded", "goal": "bounded exhaustive check of the real code",
                "status": "failed", "backend": "native", "secs": 0.0, "model": None,
                "replay": {"confirmed": True, "how": "native exhaustive run", "actual": x.get("text")}}))
    known_whole = sum(1 for r, kinds in results for ob in r.obligations if ob["status"] == "known-finding"
                      and (kinds is None or ob["kind"] in kinds))
    os.makedirs(os.path.join(ROOT, "replays"), exist_ok=True)
    viol_lines = []
    for uid, ob in failed:
        rp = ob.get("replay") or {}
        confirmed = bool(rp.get("confirmed"))
        fn = "%s-%s.json" % (prop, core.sha(ob["name"] + json.dumps(ob.get("model"), sort_keys=True, default=str)))
        path = os.path.join(ROOT, "replays", fn)
        with open(path, "w") as f:
            json.dump({"property": prop, "unit": uid, "obligation": ob["name"], "kind": ob["kind"],
                       "goal": ob["goal"], "solver": ob["backend"], "model": ob.get("model"),
                       "replay": rp, "tier": tier,
                       "note": "counter-model of path /\\ not goal; 'replay' is the native run of the real code on it"},
                      f, indent=1, default=str)
        viol_lines.append("VIOLATION property=%s replay=%s%s" % (
            prop, path, "" if confirmed else " no-failing-input-found"))
    if errors:
        rc = 3 if any(e[1][0] == "checker-error" for e in errors) else 2
    if unknown or vac:
        rc = max(rc, 2)
    if viol_lines:
        rc = 1
    wall = time.time() - t0
    ev = {
        "property_id": prop, "tier": tier, "seed": seed, "level": "proof",
        "coverage": {
            "obligations": obligations, "discharged": discharged,
            "checker_cmd": "./check %s --tier %s" % (prop, tier),
            "trusted_base": sorted(assumptions) + [
                "dv VC generator (dv/cfe.py, dv/pyfe.py) and its encodings (DESIGN.md section 3)",
                "z3 5.1.0 (cvc5 1.0.3 / z3 4.8.12 CLI for unknowns)", "clang 14 parser and type checker (C subjects), LP64"],
            "functions_under_contract": functions,
            "backends": backends, "solver_seconds": round(solver_s, 2),
            "known_finding_obligations": known_whole,
            "known_findings_applied": kf_hit,
            "measured_optional_goals": [{"name": m["name"], "status": m["status"]} for m in measured],
            "undecided": [{"unit": u, "name": o["name"], "note": o.get("note", "")} for u, o in unknown],
            "errors": [{"unit": u, "kind": e[0], "text": e[1][-600:]} for u, e in errors],
            "vacuity_failures": [{"unit": u, "text": c} for u, c in vac],
            "samples": samples or [{"note": "all obligations closed by simplification"}],
            "side_checks": [x for x in extra if x.get("kind") not in ("known-finding-witness",)],
            "known_finding_witnesses": [x for x in extra if x.get("kind") == "known-finding-witness"],
        },
        "assumptions": sorted(assumptions),
        "wall_s": round(wall, 2),
        "violations": len(viol_lines),
    }
    for m in contract_modules(prop):
        if hasattr(m, "evidence_extra"):
            ev["coverage"].update(m.evidence_extra(prop, tier))
    if obligations == 0 or discharged == 0:
        ev["level"] = "other"
        ev["coverage"]["explanation"] = "no obligation was discharged in this run (see errors)"
    # DV_EVIDENCE_DIR: used only when a check is pointed at a deliberately broken tree (seeded changes, mutants),
    # so that the committed evidence always comes from runs against the unchanged /repo
    evdir = os.environ.get("DV_EVIDENCE_DIR") or os.path.join(ROOT, "evidence")
    os.makedirs(evdir, exist_ok=True)
    with open(os.path.join(evdir, "%s.json" % prop), "w") as f:
        json.dump(ev, f, indent=1, default=str)
    print("property=%s tier=%s units=%d obligations=%d discharged=%d failed=%d unknown=%d known-finding-obligations=%d wall=%.1fs"
          % (prop, tier, len(results), obligations, discharged, len(failed), len(unknown), known_whole, wall))
    for l in kf_lines:
        print(l)
    for u, e in errors:
        print("%s unit=%s %s: %s" % ("CHECKER-ERROR" if e[0] == "checker-error" else "UNDECIDED", u, e[0],
                                      e[1].strip().splitlines()[-1] if e[1].strip() else ""))
        if a.v:
            print(e[1])
    for u, o in unknown:
        print("UNDECIDED unit=%s obligation=%s %s" % (u, o["name"], o.get("note", "")))
    for u, c in vac:
        print("UNDECIDED unit=%s vacuity: %s" % (u, c))
    for l in viol_lines:
        print(l)
    if a.v:
        for uid, ob in failed:
            print("  failed", ob["name"], ob.get("model"), json.dumps(ob.get("replay"), default=str)[:600])
    return rc


def do_replay(prop, path):
    with open(path) as f:
        rp = json.load(f)
    uid = rp["unit"]
    for m in contract_modules(prop):
        for u in m.units("thorough"):
            if u.uid == uid:
                class _Ob:
                    pass
                ob = _Ob()
                ob.kind, ob.name = rp["kind"], rp["obligation"]
                out = u.replay(rp.get("model"), ob)
                print(json.dumps(out, indent=1, default=str))
                if out.get("confirmed"):
                    print("VIOLATION property=%s replay=%s" % (prop, path))
                    return 1
                print("replay does not fail on the current tree")
                return 0
    print("CHECKER-ERROR: unit %s not found" % uid)
    return 3


if __name__ == "__main__":
    sys.exit(main())
