"""python3-vt -m dv.debug <contracts module> <uid substring> [timeout] : run units in-process, print obligations."""
import sys, importlib, time, os
ROOT = os.path.dirname(os.path.dirname(os.path.abspath(__file__)))
sys.path.insert(0, ROOT)
import z3
from dv import core

def main():
    mod, pat = sys.argv[1], sys.argv[2]
    to = int(sys.argv[3]) if len(sys.argv) > 3 else 10
    show = os.environ.get("DV_SHOW")
    m = importlib.import_module("contracts." + mod)
    for u in m.units(os.environ.get("VERIF_TIER", "thorough")):
        if pat in u.uid:
            if show:
                orig = core.discharge
                def d(ob, timeout_s=None, want_model=True):
                    r = orig(ob, timeout_s, want_model)
                    if ob.status != "proved" or show == "all":
                        print("=====", ob.name, ob.status, round(ob.secs, 2))
                        for p in ob.path: print("  P:", z3.simplify(p))
                        print("  G:", ob.goal)
                    return r
                import dv.cunit, dv.pyunit
                dv.cunit.discharge = d
                dv.pyunit.discharge = d
            r = u.run(to)
            print(u.uid, "error=", r.error, "covers=", r.covers, r.cover_failures, "wall=%.1f" % r.wall)
            for ob in r.obligations:
                print("  %-8s %-10s %6.2fs %s %s" % (ob["status"], ob["backend"], ob["secs"], ob["name"], (str(ob.get("model")) + " " + str(ob.get("note") or "")) if ob["status"] != "proved" else ""))
                if ob["status"] == "failed" and ob.get("replay"):
                    print("      replay:", str(ob["replay"])[:700])
main()
