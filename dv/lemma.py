"""Lemma units: closed formulas that must be valid (negation unsat).  Used for the rewrite idioms of
the C front end (so that no rewrite rule is trusted) and for arithmetic facts used by contracts."""
import time
import traceback
import z3
from .core import Obligation, discharge, UnitResult


class LemmaUnit:
    kind = "lemma"

    def __init__(self, uid, props, lemmas, subject=None):
        self.uid, self.props, self.lemmas = uid, props, lemmas
        self.subject = subject or {"file": "(engine)", "function": uid}
        self.kf = []

    def run(self, timeout_s=30):
        t0 = time.time()
        res = UnitResult(self.uid, dict(self.subject))
        try:
            for name, hyps, goal in self.lemmas():
                ob = Obligation("%s/lemma.%s" % (self.uid, name), "lemma", hyps, goal)
                discharge(ob, timeout_s)
                if hyps and ob.status == "proved":
                    # vacuity guard: contradictory hypotheses would prove anything
                    s = z3.Solver()
                    s.set("timeout", 5000)
                    s.add(*hyps)
                    if s.check() == z3.unsat:
                        raise RuntimeError("lemma %s: hypotheses are contradictory (vacuous)" % name)
                d = ob.short()
                d["model"], d["note"], d["kf"] = ob.model, ob.note, []
                res.obligations.append(d)
            res.covers = 1
        except Exception:
            res.error = ("checker-error", traceback.format_exc())
        res.wall = time.time() - t0
        return res

    def replay(self, model, ob=None):
        return {"confirmed": False, "note": "engine lemma: a failure is a checker error, not a property violation"}
