"""Units for C subjects: one unit = one function instantiation verified against its contract."""
import fnmatch
import os
import subprocess
import time
import traceback
import z3

from . import cextract, spec as S
from .cfe import CExec, State, CV, Ptr, parse_type, OutOfSubset, StaleContract, fp_sort, from_bool
from .core import discharge, check_sat, UnitResult, sha, Obligation


class Env:
    """attribute bag handed to contract lambdas (z3 terms when proving, Python values when replaying)."""

    def __init__(self, **kw):
        self.__dict__.update(kw)

    def get(self, k, d=None):
        return self.__dict__.get(k, d)


class TInfo:
    def __init__(self, ty):
        self.bits, self.signed, self.name = ty.bits, ty.signed, ty.name
        self.min, self.max = (ty.min, ty.max) if ty.kind == "int" else (None, None)


class Callee:
    """contract of a called function, used at call sites instead of its body."""

    def __init__(self, name, params, requires=None, ensures=None, cells=(), result="int", note=""):
        self.name, self.params = name, params          # params: list of names
        self.requires = requires or []                 # [(label, fn(e))]
        self.ensures = ensures or []                   # [(label, fn(e))]  e.result / e.<cell>_out
        self.cells = set(cells)                        # pointer params that are in/out int cells
        self.note = note

    def apply(self, ex, st, args, node):
        e = Env()
        ptrs = {}
        for nm, a in zip(self.params, args):
            if nm in self.cells:
                ptrs[nm] = a
                setattr(e, nm, ex.load(st, a, node).t)
            elif isinstance(a, Ptr):
                setattr(e, nm, a)
            else:
                setattr(e, nm, a.t)
        rty = ex_node_type(node)
        e.T = TInfo(rty) if rty.kind == "int" else None
        for label, f in self.requires:
            ex.oblige(st, "pre", "%s.%s" % (self.name, label), f(e), node)
        for nm, p in ptrs.items():
            o = st.objs[p.obj]
            nv = ex.fresh(nm + "_out")
            st.path.append(z3.And(nv >= o.elem.min, nv <= o.elem.max))
            st.mem[p.obj] = z3.Store(st.mem[p.obj], p.off, nv)
            setattr(e, nm + "_out", nv)
        if rty.kind == "int":
            r = ex.fresh(self.name + "_ret")
            st.path.append(z3.And(r >= rty.min, r <= rty.max))
            e.result = r
            res = CV(rty, r)
        elif rty.kind == "float":
            r = ex.fresh(self.name + "_ret", fp_sort(rty))
            e.result = r
            res = CV(rty, r)
        else:
            e.result = None
            res = None
        for label, f in self.ensures:
            st.path.append(f(e))
        return res


def ex_node_type(node):
    from .cfe import node_type
    return node_type(node)


class CUnit:
    """Subject = C function `fname` inside the translation unit produced by `tu()`."""
    kind = "c"

    def __init__(self, uid, props, fname, tu, filt=None, defines=(), requires=None, ensures=None,
                 cells=(), callees=None, options=None, subject=None, measured=None, arrays=None,
                 param_assume=None, harness=None, post_hook=None, structs=None, pyobjs=()):
        self.structs = structs or {}
        self.pyobjs = tuple(pyobjs)
        self.uid = uid
        self.props = props            # {'C03': None, 'C36': ['ub']}
        self.fname = fname
        self.tu = tu                  # callable -> (text, route description)
        self.filt = filt or fname
        self.defines = tuple(defines)
        self.requires = requires or []
        self.ensures = ensures or []
        self.cells = tuple(cells)
        self.callees = callees or {}
        self.options = options or {}
        self.subject = subject or {}
        self.measured = measured or []   # optional extra goals, reported but not required
        self.kf = []                  # [(glob, region_fn, kfid)] installed by the runner
        self.arrays = arrays or {}
        self.harness = harness
        self.post_hook = post_hook
        self.exec_cls = CExec
        self.rename = lambda nm: nm
        self.err_ghost = False

    # ------------------------------------------------------------------ proving
    def run(self, timeout_s=30):
        t0 = time.time()
        res = UnitResult(self.uid, dict(self.subject))
        try:
            self._run(res, timeout_s)
        except OutOfSubset as e:
            res.error = ("out-of-subset", str(e))
        except StaleContract as e:
            res.error = ("stale-contract", str(e))
        except cextract.CompileError as e:
            res.error = ("extraction-failed", str(e))
        except Exception:
            res.error = ("checker-error", traceback.format_exc())
        res.wall = time.time() - t0
        return res

    def _prepare(self):
        text, route = self.tu()
        path = cextract.write_tu(text)
        if isinstance(self.filt, (list, tuple)):
            nodes = []
            for f in self.filt:         # several name filters: the subject and the helpers it inlines
                nodes.extend(cextract.clang_ast(path, f, self.defines))
        else:
            nodes = cextract.clang_ast(path, self.filt, self.defines)
        ftext = cextract.function_text(text, self.fname) or ""
        return text, route, path, nodes, ftext

    def _run(self, res, timeout_s):
        text, route, path, nodes, ftext = self._prepare()
        self._tu_text = text
        res.subject.update(function=self.fname, route=route, sha256_16=sha(ftext), defines=list(self.defines),
                           dropped="comments, attributes, pragmas; preprocessor branches not selected by the defines")
        ex = self.exec_cls(nodes, self.fname, contracts=self.callees, prefix=self.uid + "/", options=self.options)
        ex.tu_text = text
        st = State()
        if self.err_ghost:
            st.err = z3.IntVal(0)      # precondition: no exception pending on entry
        e = Env()
        args = []
        ptypes = [(self.rename(nm), ty) for nm, ty in ex.param_types()]
        for nm, ty in ptypes:
            if ty.is_int():
                # a parameter the unit fixes to a constant (one unit per value of a small enumeration argument)
                t = z3.IntVal(self.consts[nm]) if nm in getattr(self, "consts", {}) else z3.Int(nm)
                st.path.append(z3.And(t >= ty.min, t <= ty.max))
                args.append(CV(ty, t))
                setattr(e, nm, t)
            elif ty.is_float():
                t = z3.Const(nm, fp_sort(ty))
                args.append(CV(ty, t))
                setattr(e, nm, t)
            elif ty.is_ptr() and nm in self.cells:
                ety = ty.pointee
                t = z3.Int(nm + "_in")
                st.path.append(z3.And(t >= ety.min, t <= ety.max))
                ex.new_obj(st, nm, ety, z3.IntVal(1),
                           init=z3.Store(z3.K(z3.IntSort(), z3.IntVal(0)), 0, t))
                args.append(Ptr(ty, nm, z3.IntVal(0)))
                setattr(e, nm, t)
            elif ty.is_ptr() and nm in self.arrays:
                # pointer to the first element of a caller-provided array: (element ctype, length builder(e) | int)
                ety = parse_type(self.arrays[nm][0])
                ln = self.arrays[nm][1]
                ln = z3.IntVal(ln) if isinstance(ln, int) else ln(e)
                ex.new_obj(st, nm, ety, ln)
                k = z3.Int("k!" + nm)
                st.path.append(z3.ForAll([k], z3.And(z3.Select(st.mem[nm], k) >= ety.min, z3.Select(st.mem[nm], k) <= ety.max)))
                args.append(Ptr(ty, nm, z3.IntVal(0)))
            elif ty.is_ptr() and nm in self.pyobjs:
                # PyObject* parameter: an object identity of the abstract object model (dv/pyobj.py)
                t = z3.Int(nm)
                st.path.append(t >= 1)
                args.append(Ptr(ty, "pyobj", t))
                setattr(e, nm, t)
            elif ty.is_ptr() and nm in self.structs:
                # pointer to a struct whose fields the contract describes: name -> (ctype, count) | ('ptr', target buffer)
                for fname, spec in self.structs[nm].items():
                    oname = "%s.%s" % (nm, fname)
                    if spec[0] == "ptr":
                        o = ex.new_obj(st, oname, parse_type("char *"), z3.IntVal(1))
                        o.target = spec[1]
                        if spec[1] not in st.objs:
                            ex.new_obj(st, spec[1], parse_type("char"), None)
                    else:
                        ety = parse_type(spec[0])
                        ex.new_obj(st, oname, ety, z3.IntVal(spec[1]))
                        k = z3.Int("k!" + oname)
                        st.path.append(z3.ForAll([k], z3.And(z3.Select(st.mem[oname], k) >= ety.min,
                                                             z3.Select(st.mem[oname], k) <= ety.max)))
                args.append(Ptr(ty, nm, z3.IntVal(0)))
            else:
                raise OutOfSubset("parameter %s of type %s is not described by the contract" % (nm, ty.name))
        e.mem0 = dict(st.mem)
        rty = ex.return_type()
        e.T = TInfo(rty) if rty.kind == "int" else None
        e.types = {nm: TInfo(ty) for nm, ty in ptypes if ty.kind == "int"}
        pre = [f(e) for _, f in self.requires]
        st.path.extend(pre)
        # vacuity guard: the precondition must be satisfiable
        if check_sat(st.path) != z3.sat:
            res.cover_failures.append("precondition of %s is not satisfiable (or undecided)" % self.uid)
        else:
            res.covers += 1
        rets = ex.run(st, args)
        n_paths = 0
        for s, v in rets:
            e2 = Env(**e.__dict__)
            e2.result = v.t if isinstance(v, CV) else v
            e2.result_null = isinstance(v, Ptr) and v.obj is None
            e2.result_id = v.off if (isinstance(v, Ptr) and v.obj == "pyobj") else None
            if self.err_ghost:
                e2.err = s.err
            e2.mem = dict(s.mem)
            for c in self.cells:
                setattr(e2, c + "_out", z3.Select(s.mem[c], 0))
            for label, f in self.ensures:
                ex.oblige(s, "post", label, f(e2), None)
            for label, f in self.measured:
                ex.oblige(s, "measured", label, f(e2), None)
            n_paths += 1
        res.info["return_paths"] = n_paths
        if n_paths == 0:
            res.cover_failures.append("no return path")
        feasible = 0
        for s, v in rets:
            # vacuity guard: one feasible return path is what is needed; with many paths (merge off, unrolled loops)
            # checking every one costs seconds each and adds nothing
            if check_sat(s.path) == z3.sat:
                feasible += 1
                if len(rets) > 8:
                    break
        res.covers += feasible
        if feasible == 0:
            res.cover_failures.append("no feasible return path")
        res.assumptions = sorted(ex.assumptions)
        self._finish(res, ex.obligations, e, timeout_s)

    def _finish(self, res, obligations, e, timeout_s):
        for ob in obligations:
            kfids = []
            for glob, region, kfid in self.kf:
                if fnmatch.fnmatch(ob.name, glob):
                    if region is not None:
                        ob.path.append(z3.Not(region(e)))
                    kfids.append((kfid, region is None))
            if ob.status is None:
                discharge(ob, timeout_s)
            cs = self.options.get("case_split")
            if ob.status == "unknown" and cs:
                # finite case split on a small-domain input (contract option): every case must be discharged
                name, values = cs
                term = getattr(e, name)
                all_ok = True
                for v in values:
                    sub = Obligation(ob.name, ob.kind, ob.path + [term == v], ob.goal)
                    discharge(sub, timeout_s)
                    if sub.status != "proved":
                        all_ok = False
                        if sub.status == "failed":
                            ob.status, ob.model, ob.backend = "failed", sub.model, sub.backend
                        break
                if all_ok:
                    ob.status, ob.backend = "proved", "z3-api/case-split(%s in %d values)" % (name, len(values))
            d = ob.short()
            d["model"] = ob.model
            d["note"] = ob.note
            d["kf"] = [k for k, _ in kfids]
            if ob.status == "failed" and any(whole for _, whole in kfids):
                d["status"] = "known-finding"
            res.obligations.append(d)
            if ob.kind == "subset":
                continue            # modelling-limit obligations are never replayed / searched (see run.py)
            if d["status"] == "failed" and ob.kind != "measured":
                rp = None
                try:
                    rp = self.replay(ob.model, ob)
                except Exception:
                    rp = {"error": traceback.format_exc()[-1500:]}
                d["replay"] = rp
            if ob.kind != "measured" and ((d["status"] == "failed" and not (d.get("replay") or {}).get("confirmed"))
                                          or d["status"] == "unknown"):
                # spec-guided concrete search on the real code (DESIGN 2.5): boundary grid + seeded random
                try:
                    regions = [r for g, r, _ in self.kf if r is not None and fnmatch.fnmatch(ob.name, g)]
                    found = self.concrete_search(ob, regions)
                except Exception:
                    found = {"error": traceback.format_exc()[-1500:]}
                if found and found.get("confirmed"):
                    if d["status"] == "unknown":
                        d["note"] = (d.get("note") or "") + " solver undecided; failing input found by concrete search"
                    d["status"] = "failed"
                    d["replay"] = found
                elif d["status"] == "failed":
                    d["replay"]["concrete_search"] = found

    # ------------------------------------------------------------------ concrete search
    def _grid(self, ty, rnd, n_random):
        vals = {0, 1, 2, 3, 5, 7}
        if ty.signed:
            vals |= {-1, -2, -3, ty.min, ty.min + 1, ty.min + 2, ty.min // 2, ty.min // 2 - 1, ty.min // 2 + 1}
        vals |= {ty.max, ty.max - 1, ty.max - 2, ty.max // 2, ty.max // 2 + 1, ty.max // 2 - 1, ty.max // 3}
        for k in (7, 15, 16, 30, 31, 32):
            if k < ty.bits - 1:
                vals |= {1 << k, (1 << k) - 1, (1 << k) + 1}
                if ty.signed:
                    vals |= {-(1 << k), -(1 << k) - 1, -(1 << k) + 1}
        vals = {v for v in vals if ty.min <= v <= ty.max}
        for _ in range(n_random):
            vals.add(rnd.randint(ty.min, ty.max))
            vals.add(rnd.randint(-40, 40) if ty.signed else rnd.randint(0, 80))
        return sorted(vals)

    def concrete_search(self, ob, regions=(), budget=6000):
        """run the extracted function natively on a boundary grid + random inputs and evaluate the
        contract on each result; returns a confirmed replay record for the first failing input."""
        import itertools
        import random
        if any(not (ty.is_int() or nm in self.cells) for nm, ty in self._ptypes_cached()):
            return {"confirmed": False, "note": "concrete search only implemented for integer parameters"}
        rnd = random.Random(int(os.environ.get("VERIF_SEED", "0") or 0) + 17)
        ptypes = self._ptypes
        grids = []
        for nm, ty in ptypes:
            if nm in self.cells:
                grids.append([0, 1])
            elif nm == "b_is_constant":
                grids.append([0, 1])
            else:
                grids.append(self._grid(ty, rnd, 6))
        combos = list(itertools.product(*grids))
        if len(combos) > budget:
            rnd.shuffle(combos)
            combos = combos[:budget]
        names = [nm for nm, _ in ptypes]
        e0 = Env()
        e0.T = TInfo(self._rty) if self._rty.kind == "int" else None
        e0.types = {nm: TInfo(ty) for nm, ty in ptypes if ty.kind == "int"}
        cases = []
        for c in combos:
            e = Env(**e0.__dict__)
            for nm, v in zip(names, c):
                setattr(e, nm, v)
            try:
                if not all(bool(f(e)) for _, f in self.requires):
                    continue
                if any(bool(r(e)) for r in regions):
                    continue
                if getattr(self, "native_guard", None) is not None and not self.native_guard(dict(zip(names, c))):
                    continue
            except Exception:
                continue
            cases.append(c)
        if not cases:
            return {"confirmed": False, "note": "no grid point satisfies the precondition"}
        sanitize = ob.kind in ("ub", "unwind")
        outs = self.run_native_batch(cases, sanitize)
        if "build_error" in outs:
            return {"confirmed": False, "note": outs["build_error"][-500:]}
        tried = 0
        for c, out in zip(cases, outs["results"]):
            tried += 1
            vals = dict(zip(names, c))
            if out is None:       # process died on this input
                return {"inputs": vals, "confirmed": True, "native": {"exit": outs.get("exit"), "stderr": outs.get("stderr", "")[-600:]},
                        "how": "concrete search: native run of the extracted function %s on this input (tried %d inputs)"
                               % ("under UBSan aborted" if sanitize else "crashed", tried), "obligation": ob.name}
            if sanitize:
                continue
            e = Env(**e0.__dict__)
            for nm, v in vals.items():
                setattr(e, nm, v)
            e.result = out.get("result")
            e.err = out.get("err", 0)
            for cnm in self.cells:
                setattr(e, cnm + "_out", out.get(cnm + "_out"))
            viol = [label for label, f in self.ensures if not bool(f(e))]
            if viol:
                return {"inputs": vals, "native": out, "violated_postconditions": viol, "confirmed": True,
                        "obligation": ob.name,
                        "how": "concrete search: native run of the extracted function; postconditions evaluated natively (tried %d inputs)" % tried}
        return {"confirmed": False, "tried": tried, "note": "no failing input among %d grid/random inputs" % tried}

    def _ptypes_cached(self):
        if not hasattr(self, "_ptypes"):
            self._param_names()
        return self._ptypes

    def run_native_batch(self, cases, sanitize=False):
        """one process, many inputs (read from stdin); a crash/abort identifies the offending input."""
        text = self._tu_text
        rty = self._rty
        decl, scan, call, prints = [], [], [], []
        for nm, ty in self._ptypes:
            decl.append("long long in_%s;" % nm)
            scan.append("in_%s" % nm)
            if nm in self.cells:
                decl.append("%s %s;" % (ty.pointee.name, nm))
                call.append("&" + nm)
            else:
                call.append("(%s) in_%s" % (ty.name, nm))
        body = []
        for nm, ty in self._ptypes:
            if nm in self.cells:
                body.append("%s = (%s) in_%s;" % (nm, ty.pointee.name, nm))
        fmt = " ".join(["%lld"] * len(scan))
        args = ", ".join("&" + s for s in scan)
        if rty.kind == "int":
            body.append("%s r = %s(%s);" % (rty.name, self.fname, ", ".join(call)))
            body.append('printf("result=%s", (%s) r);' % ("%lld" if rty.signed else "%llu",
                                                         "long long" if rty.signed else "unsigned long long"))
        else:
            body.append("%s(%s);" % (self.fname, ", ".join(call)))
        for nm in self.cells:
            body.append('printf(" %s_out=%%lld", (long long) %s);' % (nm, nm))
        body.append('printf("\\n"); fflush(stdout);')
        harness = ("\n#include <stdio.h>\nint main(void) {\n  %s\n  while (scanf(\"%s\", %s) == %d) {\n    %s\n  }\n  return 0;\n}\n"
                   % ("\n  ".join(decl), fmt, args, len(scan), "\n    ".join(body)))
        cfile = cextract.write_tu(text + harness, "batch.c")
        exe = cfile[:-2] + (".san" if sanitize else ".bin")
        cc = ["clang"] + (["-fsanitize=undefined", "-fno-sanitize-recover=all"] if sanitize else [])
        cmd = cc + ["-O0", "-w", "-I" + cextract.PY_INCLUDE] + ["-D" + d for d in self.defines] + [cfile, "-o", exe, "-lm"]
        p = subprocess.run(cmd, capture_output=True, text=True)
        if p.returncode != 0:
            return {"build_error": p.stderr[-2000:]}
        # unsigned values above LLONG_MAX are passed as their two's-complement long long image
        def enc(v):
            return v - (1 << 64) if v > (1 << 63) - 1 else v
        inp = "\n".join(" ".join(str(enc(v)) for v in c) for c in cases) + "\n"
        try:
            r = subprocess.run([exe], input=inp, capture_output=True, text=True, timeout=120)
        except subprocess.TimeoutExpired:
            return {"build_error": "timeout"}
        results = []
        for line in r.stdout.splitlines():
            d = {}
            for tok in line.split():
                k, v = tok.split("=", 1)
                d[k] = int(v)
            results.append(d)
        while len(results) < len(cases):
            results.append(None)
        return {"results": results, "exit": r.returncode, "stderr": r.stderr}

    # ------------------------------------------------------------------ replay
    def native_inputs(self, model):
        """concrete parameter values from a counter-model (missing -> 0)."""
        vals = {}
        for nm in self._param_names():
            k = nm + "_in" if nm in self.cells else nm
            v = (model or {}).get(k, 0)
            vals[nm] = v
        return vals

    def _param_names(self):
        text, route, path, nodes, ftext = self._prepare()
        ex = self.exec_cls(nodes, self.fname)
        self._ptypes = [(self.rename(nm), ty) for nm, ty in ex.param_types()]
        self._rty = ex.return_type()
        self._tu_text = text
        return [nm for nm, _ in self._ptypes]

    def run_native(self, vals, sanitize=False):
        """compile the same translation unit with a main() harness and run the function on vals."""
        text = self._tu_text
        decl, call, prints = [], [], []
        for nm, ty in self._ptypes:
            if ty.is_int():
                decl.append("%s %s = (%s) %s;" % (ty.name, nm, ty.name, _clit(vals[nm], ty)))
                call.append(nm)
            elif ty.is_float():
                decl.append("%s %s = %s;" % (ty.name, nm, _cflt(vals[nm])))
                call.append(nm)
            elif nm in self.cells:
                decl.append("%s %s = (%s) %s;" % (ty.pointee.name, nm, ty.pointee.name, _clit(vals[nm], ty.pointee)))
                call.append("&" + nm)
                prints.append('printf("%s_out=%%lld\\n", (long long) %s);' % (nm, nm))
        rty = self._rty
        if rty.kind == "int":
            if rty.signed:
                callx = '%s r = %s(%s); printf("result=%%lld\\n", (long long) r);' % (rty.name, self.fname, ", ".join(call))
            else:
                callx = '%s r = %s(%s); printf("result=%%llu\\n", (unsigned long long) r);' % (rty.name, self.fname, ", ".join(call))
        elif rty.kind == "float":
            callx = '%s r = %s(%s); printf("result=%%a\\n", (double) r);' % (rty.name, self.fname, ", ".join(call))
        else:
            callx = "%s(%s);" % (self.fname, ", ".join(call))
        harness = "\n#include <stdio.h>\nint main(void) {\n  %s\n  %s\n  %s\n  return 0;\n}\n" % (
            "\n  ".join(decl), callx, "\n  ".join(prints))
        cfile = cextract.write_tu(text + harness, "replay.c")
        exe = cfile[:-2] + (".san" if sanitize else ".bin")
        cc = ["clang", "-fsanitize=undefined", "-fno-sanitize-recover=all"] if sanitize else ["clang"]
        cmd = cc + ["-O0", "-w", "-I" + cextract.PY_INCLUDE] + ["-D" + d for d in self.defines] + [cfile, "-o", exe, "-lm"]
        p = subprocess.run(cmd, capture_output=True, text=True)
        if p.returncode != 0:
            return {"build_error": p.stderr[-2000:]}
        try:
            r = subprocess.run([exe], capture_output=True, text=True, timeout=20)
        except subprocess.TimeoutExpired:
            return {"timeout": True}
        out = {"exit": r.returncode, "stderr": r.stderr[-800:]}
        for line in r.stdout.splitlines():
            if "=" in line:
                k, v = line.split("=", 1)
                if k == "result" and rty.kind == "float":
                    out[k] = float.fromhex(v)
                else:
                    out[k] = int(v)
        return out

    def replay(self, model, ob=None):
        vals = self.native_inputs(model)
        e = Env(**{k: v for k, v in vals.items()})
        e.T = TInfo(self._rty) if self._rty.kind == "int" else None
        e.types = {nm: TInfo(ty) for nm, ty in self._ptypes if ty.kind == "int"}
        pre_ok = all(bool(f(e)) for _, f in self.requires)
        kind = ob.kind if ob is not None else "post"
        guard = getattr(self, "native_guard", None)
        if guard is not None and not guard(vals):
            # e.g. a loop subject whose model would iterate 2**60 times natively
            return {"inputs": vals, "precondition_holds": pre_ok, "confirmed": False, "obligation": ob.name if ob else None,
                    "note": "the solver's model is outside the native replay budget of this unit (not run)"}
        out = self.run_native(vals, sanitize=(kind in ("ub", "unwind")))
        rep = {"inputs": vals, "precondition_holds": pre_ok, "native": out, "obligation": ob.name if ob else None}
        if "build_error" in out or "timeout" in out:
            rep["confirmed"] = False
            return rep
        if kind in ("ub", "unwind"):
            rep["confirmed"] = bool(out["exit"] != 0 and ("runtime error" in out["stderr"] or out["exit"] < 0))
            rep["how"] = "clang -fsanitize=undefined -fno-sanitize-recover=all on the extracted function"
            return rep
        if out["exit"] != 0:
            rep["confirmed"] = True
            rep["how"] = "native run crashed (exit %s)" % out["exit"]
            return rep
        e.result = out.get("result")
        e.err = out.get("err", 0)
        for c in self.cells:
            setattr(e, c + "_out", out.get(c + "_out"))
        viol = []
        for label, f in self.ensures:
            try:
                ok = bool(f(e))
            except Exception as ex:
                ok = False
                viol.append("%s: spec evaluation error %s" % (label, ex))
            if not ok:
                viol.append(label)
        rep["violated_postconditions"] = viol
        rep["confirmed"] = bool(viol) and pre_ok
        rep["how"] = "function compiled from the same extracted text with clang -O0 (same preprocessor configuration as the proof) and run; postconditions evaluated natively"
        return rep


def _clit(v, ty):
    v = int(v)
    if ty.signed:
        if v == ty.min:
            return "(-%dLL - 1)" % (ty.max,)
        return "%dLL" % v
    return "%dULL" % v


def _cflt(v):
    v = float(v)
    if v != v:
        return "(0.0/0.0)"
    if v in (float("inf"), float("-inf")):
        return "(1.0/0.0)" if v > 0 else "(-1.0/0.0)"
    return v.hex()
