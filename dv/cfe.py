"""C front end: symbolic execution of ONE function taken from clang's typed JSON AST.

Encoding (DESIGN.md section 3.2): C integers are mathematical z3 Ints that are always inside
the range of their C type; every signed operation emits a no-overflow obligation (C UB),
unsigned results are reduced mod 2^w, conversions are the explicit IntegralCast nodes clang
inserted, / and % are truncating with b != 0 and MIN/-1 obligations.  Bit operations are
rewritten by idioms that are justified inline (0/1 operands, masks 2^k-1, sign tests of x^y,
one-operand-zero |) and otherwise go through a bit-vector island (Int2BV/BV2Int).
Anything not modelled raises OutOfSubset.
"""
import re
import json
import z3
from .core import Obligation, OutOfSubset, StaleContract
from . import spec as S

# ------------------------------------------------------------------------------- types

INT_TYPES = {
    "_Bool": (8, False), "char": (8, True), "signed char": (8, True), "unsigned char": (8, False),
    "short": (16, True), "unsigned short": (16, False), "int": (32, True), "unsigned int": (32, False),
    "long": (64, True), "unsigned long": (64, False), "long long": (64, True),
    "unsigned long long": (64, False), "__int128": (128, True), "unsigned __int128": (128, False),
}
TYPEDEFS = {"Py_ssize_t": "long", "size_t": "unsigned long", "ssize_t": "long", "ptrdiff_t": "long",
            "Py_hash_t": "long", "Py_UCS4": "unsigned int", "Py_UCS2": "unsigned short",
            "Py_UCS1": "unsigned char", "uint8_t": "unsigned char", "uint16_t": "unsigned short",
            "uint32_t": "unsigned int", "uint64_t": "unsigned long", "int8_t": "signed char",
            "int16_t": "short", "int32_t": "int", "int64_t": "long", "digit": "unsigned int",
            "sdigit": "int", "twodigits": "unsigned long", "stwodigits": "long",
            "uintptr_t": "unsigned long", "intptr_t": "long", "PY_LONG_LONG": "long long",
            "Py_UNICODE": "int", "wchar_t": "int", "PyGILState_STATE": "unsigned int"}


class CType:
    __slots__ = ("kind", "bits", "signed", "name", "pointee", "count")

    def __init__(self, kind, bits=0, signed=True, name="", pointee=None, count=None):
        self.kind, self.bits, self.signed, self.name = kind, bits, signed, name
        self.pointee, self.count = pointee, count

    @property
    def min(self):
        return S.tmin(self.bits, self.signed)

    @property
    def max(self):
        return S.tmax(self.bits, self.signed)

    def is_int(self):
        return self.kind == "int"

    def is_float(self):
        return self.kind == "float"

    def is_ptr(self):
        return self.kind == "ptr"

    def size(self):
        if self.kind in ("int", "float"):
            return self.bits // 8
        if self.kind == "ptr":
            return 8
        raise OutOfSubset("sizeof(%s)" % self.name)

    def __repr__(self):
        return "CType(%s)" % self.name


_type_cache = {}


def parse_type(s):
    s0 = s
    if s in _type_cache:
        return _type_cache[s]
    s = re.sub(r"\b(const|volatile|restrict|__restrict|register)\b", "", s).strip()
    s = re.sub(r"\s+", " ", s)
    s = s.replace(" *", "*").replace("* ", "*")
    t = None
    m = re.match(r"^(.*)\[(\d*)\]$", s)
    if m and "(" not in s:
        t = CType("array", name=s, pointee=parse_type(m.group(1).strip()),
                  count=int(m.group(2)) if m.group(2) else None)
    elif s.endswith("*") and "(" not in s:
        t = CType("ptr", 64, False, s, pointee=parse_type(s[:-1].strip()))
    elif "(" in s:
        t = CType("func", name=s)
    else:
        base = s
        if base.startswith("enum "):
            t = CType("int", 32, False if False else True, s)
        elif base.startswith("struct ") or base.startswith("union "):
            t = CType("struct", name=base)
        else:
            base = TYPEDEFS.get(base, base)
            b2 = " ".join(w for w in base.split() if w != "int" or base in ("int", "unsigned int"))
            b2 = {"unsigned": "unsigned int", "signed": "int", "long unsigned": "unsigned long",
                  "short unsigned": "unsigned short", "long long unsigned": "unsigned long long",
                  "signed long": "long", "signed short": "short", "signed long long": "long long",
                  "signed int": "int"}.get(b2, b2)
            if b2 in INT_TYPES:
                bits, sg = INT_TYPES[b2]
                t = CType("int", bits, sg, s)
            elif b2 == "double":
                t = CType("float", 64, True, s)
            elif b2 == "float":
                t = CType("float", 32, True, s)
            elif b2 == "void":
                t = CType("void", name=s)
            else:
                t = CType("opaque", name=s)
    _type_cache[s0] = t
    return t


def node_type(n):
    ty = n.get("type") or {}
    q = ty.get("desugaredQualType") or ty.get("qualType")
    if q is None:
        raise OutOfSubset("node without type: %s" % n.get("kind"))
    t = parse_type(q)
    if t.kind == "opaque" and ty.get("qualType") and ty.get("qualType") != q:
        t2 = parse_type(ty["qualType"])
        if t2.kind != "opaque":
            return t2
    return t


# ------------------------------------------------------------------------------- values

class CV:
    """C scalar value: ty + z3 term (Int for ints, FP for floats); b: Bool if the int is 0/1-valued;
    sym: structural tag for idioms, e.g. ('xor', x, y)."""
    __slots__ = ("ty", "t", "b", "sym")

    def __init__(self, ty, t, b=None, sym=None):
        self.ty, self.t, self.b, self.sym = ty, t, b, sym


class Ptr:
    """pointer into a memory object: obj name + element offset; null: obj None."""
    __slots__ = ("ty", "obj", "off")

    def __init__(self, ty, obj, off):
        self.ty, self.obj, self.off = ty, obj, off


class MemObj:
    """array-like object in memory.  arr: z3 Array(Int->Int) (or Int->FP); length: Int term or None
    (unknown extent: every access is then reported out of subset)."""

    def __init__(self, name, elem, length):
        self.name, self.elem, self.length = name, elem, length


class State:
    def __init__(self):
        self.vars = {}      # decl id -> CV | Ptr | StructVal
        self.path = []
        self.mem = {}       # obj name -> z3 array term (current contents)
        self.objs = {}      # obj name -> MemObj
        self.names = {}     # decl id -> source name
        self.err = None     # ghost error indicator (z3 Int), if modelled

    def copy(self):
        s = State()
        s.vars = dict(self.vars)
        s.path = list(self.path)
        s.mem = dict(self.mem)
        s.objs = self.objs
        s.names = self.names
        s.err = self.err
        return s


I32 = parse_type("int")
BV_ISLANDS = []


def int_val(ty, v):
    return CV(ty, z3.IntVal(v))


NULLABLE = {}       # z3 term id -> term: object identities that may be 0 (= a NULL pointer), registered by the stubs that return them


def mark_nullable(t):
    NULLABLE[t.get_id()] = t
    return t


def is_nullable(v):
    return isinstance(v, Ptr) and v.obj == "pyobj" and z3.is_expr(v.off) and v.off.get_id() in NULLABLE


def as_bool(v):
    """C truth value of a scalar as z3 Bool."""
    if isinstance(v, Ptr):
        if v.obj is None:
            return z3.BoolVal(False)
        if is_nullable(v):
            return v.off != 0
        return z3.BoolVal(True)
    if v.b is not None:
        return v.b
    if v.ty.is_float():
        return z3.Not(z3.fpIsZero(v.t))
    return v.t != 0


def from_bool(b, ty=I32):
    b = z3.simplify(b) if z3.is_expr(b) else z3.BoolVal(b)
    if z3.is_true(b):
        return CV(ty, z3.IntVal(1), b=b)
    if z3.is_false(b):
        return CV(ty, z3.IntVal(0), b=b)
    return CV(ty, z3.If(b, z3.IntVal(1), z3.IntVal(0)), b=b)


def fp_sort(ty):
    return z3.Float64() if ty.bits == 64 else z3.Float32()


RNE = z3.RNE()


def fp_op(op, bits=64):
    """IEEE-754 binary operation (round to nearest even) as an uninterpreted function"""
    srt = z3.Float64() if bits == 64 else z3.Float32()
    return z3.Function("ieee_%s%d" % ({"+": "add", "-": "sub", "*": "mul", "/": "div"}[op], bits), srt, srt, srt)


def i2d(bits=64):
    """integer -> floating conversion as an uninterpreted function shared by subject and spec"""
    return z3.Function("int_to_fp%d" % bits, z3.IntSort(), z3.Float64() if bits == 64 else z3.Float32())


def i2d_facts(t):
    """ground instance, for the integer term t, of the ASSUMED facts about the uninterpreted int -> double conversion of
    magnitudes: not NaN, not negative, zero exactly for 0, below 2**53 exactly when the magnitude is"""
    m = z3.If(t < 0, -t, t)
    f = i2d(64)(m)
    two53 = z3.FPVal(float(2 ** 53), z3.Float64())
    return z3.And(z3.Not(z3.fpIsNaN(f)), z3.Not(z3.fpIsNegative(f)), z3.fpLT(f, two53) == (m < 2 ** 53), z3.fpIsZero(f) == (m == 0))


def nearest_fp(t, bits=64):
    """the floating-point value nearest to the integer t (spec side and subject side share this definition): the
    uninterpreted conversion of the magnitude with the sign applied"""
    f = i2d(bits)(z3.If(t < 0, -t, t))
    return z3.If(t < 0, z3.fpNeg(f), f)


# ------------------------------------------------------------------------------- executor

class CExec:
    def __init__(self, tu_nodes, fname, contracts=None, prefix="", options=None):
        """tu_nodes: list of top-level clang JSON nodes (at least the subject FunctionDecl with body;
        other FunctionDecls/VarDecls found there may be inlined / read when requested)."""
        self.nodes = tu_nodes
        self.fname = fname
        self.contracts = contracts or {}
        self.prefix = prefix
        self.opt = dict(wrapv=False, inline=(), arith_shift=True, max_steps=20000, unroll={},
                        invariants={}, int_builtin_ok=True)
        if options:
            self.opt.update(options)
        self.obligations = []
        self.assumptions = set()
        self.fresh_n = 0
        self.steps = 0
        self.func = self._find_function(fname)
        self.base_line = self.func.get("_line", 0)
        self.counter = {}
        self.loop_ordinal = 0
        self.returns = []       # (state, value)

    # ---------------------------------------------------------------- helpers
    def _find_function(self, name):
        cands = [n for n in self.nodes if n.get("kind") == "FunctionDecl" and n.get("name") == name
                 and any(c.get("kind") == "CompoundStmt" for c in n.get("inner", []))]
        if not cands:
            raise StaleContract("function %s with a body not found in the extracted translation unit" % name)
        return cands[-1]

    def fresh(self, base, sort=None):
        self.fresh_n += 1
        nm = "%s!%d" % (base, self.fresh_n)
        if sort is None:
            return z3.Int(nm)
        return z3.Const(nm, sort)

    def oblige(self, st, kind, what, goal, node=None, note=""):
        line = (node or {}).get("_line", 0) - self.base_line if node else 0
        key = "%s.%s@L%d" % (kind, what, line)
        n = self.counter.get(key, 0)
        self.counter[key] = n + 1
        name = "%s%s%s" % (self.prefix, key, "" if n == 0 else ".%d" % n)
        if isinstance(goal, bool):
            goal = z3.BoolVal(goal)
        g = z3.simplify(goal)
        if z3.is_true(g):
            # trivially true: still counted as an obligation (discharged by simplification)
            ob = Obligation(name, kind, [], z3.BoolVal(True), loc=line, note=note)
            ob.status, ob.backend = "proved", "simplify"
            self.obligations.append(ob)
            return
        self.obligations.append(Obligation(name, kind, st.path, goal, loc=line, note=note))

    def assume(self, st, f):
        st.path.append(f)

    # ---------------------------------------------------------------- integer arithmetic
    def fit(self, st, ty, m, node, what):
        """result of an arithmetic op with mathematical value m in type ty."""
        if not ty.is_int():
            raise OutOfSubset("arithmetic on %s" % ty.name)
        if z3.is_app(m) and m.num_args() > 0 and all(z3.is_int_value(c) for c in m.children()):
            m = z3.simplify(m)
        if z3.is_int_value(m) and not ty.signed:
            return CV(ty, z3.IntVal(m.as_long() % (1 << ty.bits)))
        if ty.signed:
            if self.opt["wrapv"]:
                return CV(ty, S.wrap(m, ty.bits, True))
            self.oblige(st, "ub", "signed_overflow." + what, z3.And(m >= ty.min, m <= ty.max), node)
            return CV(ty, m)
        if self.opt.get("probe_unsigned"):
            # unsigned arithmetic is modulo 2^bits; when the quantifier-free part of the path already refutes a wrap, the
            # reduction is the identity and is left out (keeps terms such as f(pos + 1) in a shape that quantifier triggers match)
            from .core import check_sat as _cs, qf_part as _qf
            if _cs(_qf(st.path) + [z3.Not(z3.And(m >= 0, m < (1 << ty.bits)))], 1) == z3.unsat:
                return CV(ty, m)
        return CV(ty, m % (1 << ty.bits))

    def convert(self, st, v, ty, node=None, explicit=False):
        """integer/float conversion to ty (C 6.3.1)."""
        if isinstance(v, Ptr):
            if ty.is_ptr():
                return Ptr(ty, v.obj, v.off)
            if ty.is_int() and ty.bits == 8 and ty.name.strip() == "_Bool":
                return from_bool(as_bool(v), ty)
            raise OutOfSubset("pointer to integer conversion")
        if ty.is_int():
            if v.ty.is_int():
                if ty.name.strip() == "_Bool":
                    return from_bool(as_bool(v), ty)
                if v.b is not None:
                    return CV(ty, v.t, b=v.b)
                if ty.signed == v.ty.signed and ty.bits >= v.ty.bits:
                    return CV(ty, v.t, sym=v.sym)
                if ty.signed and not v.ty.signed and ty.bits > v.ty.bits:
                    return CV(ty, v.t)
                if z3.is_int_value(v.t):
                    return CV(ty, z3.IntVal(S.wrap(v.t.as_long(), ty.bits, ty.signed)))
                if ty.signed:
                    # narrowing to signed: implementation-defined; gcc/clang: two's complement wrap
                    self.assumptions.add("conversion of an out-of-range value to a signed integer type wraps "
                                         "(implementation-defined in C; gcc/clang behaviour)")
                return CV(ty, S.wrap(v.t, ty.bits, ty.signed))
            if v.ty.is_float():
                # float -> int: UB if the truncated value is out of range
                r = z3.fpToReal(z3.fpRoundToIntegral(z3.RTZ(), v.t))
                i = z3.ToInt(r)
                self.oblige(st, "ub", "float_to_int_range",
                            z3.And(z3.Not(z3.fpIsNaN(v.t)), z3.Not(z3.fpIsInf(v.t)), i >= ty.min, i <= ty.max), node)
                return CV(ty, i)
        if ty.is_float():
            if v.ty.is_float():
                if v.ty.bits == ty.bits:
                    return CV(ty, v.t)
                return CV(ty, z3.fpToFP(RNE, v.t, fp_sort(ty)))
            if v.ty.is_int():
                if v.b is not None:
                    # 0/1-valued integer: exactly 1.0 or 0.0 (the flag is kept for the 0/1-factor product idiom)
                    return CV(ty, z3.If(v.b, z3.FPVal(1.0, fp_sort(ty)), z3.FPVal(0.0, fp_sort(ty))), b=v.b)
                if z3.is_int_value(v.t):
                    return CV(ty, z3.fpToFP(RNE, z3.ToReal(v.t), fp_sort(ty)))
                # (double) of a symbolic integer: an uninterpreted function (same symbol on the spec side), because
                # int -> real -> fp conversion of an unbounded integer defeats the FP solver; i2d is C's
                # round-to-nearest conversion, exact for |v| <= 2**53 (binary64)
                return CV(ty, self.int_to_fp(st, v.t, ty.bits))
        if ty.kind == "void":
            return v
        raise OutOfSubset("conversion %s -> %s" % (v.ty.name, ty.name))

    def int_to_fp(self, st, t, bits=64):
        """(double) t for a symbolic integer: `nearest_fp` below, plus GROUND instances of the assumed facts about the
        uninterpreted conversion for this very term (never a quantified axiom: VCs stay ground)"""
        if bits == 64:
            st.path.append(i2d_facts(t))
            self.assumptions.add("int -> double conversion: an uninterpreted function of the magnitude, applied with the sign (C's and "
                                 "CPython's conversions are odd); ASSUMED per converted term: not NaN, non-negative on magnitudes, zero only "
                                 "for 0, and below 2**53 exactly when the magnitude is")
        return nearest_fp(t, bits)

    def tdiv(self, st, a, b, node):
        """truncating quotient and remainder of Int terms (b != 0 already obliged)."""
        if z3.is_int_value(a) and z3.is_int_value(b) and b.as_long() != 0:
            q = S.truncdiv(a.as_long(), b.as_long())
            return z3.IntVal(q), z3.IntVal(a.as_long() - q * b.as_long())
        return S.truncdiv(a, b), S.truncmod(a, b)

    def bitop(self, st, op, x, y, ty, node):
        """x op y for op in & | ^ on values already converted to ty."""
        if x.b is not None and y.b is not None:
            f = {"&": z3.And, "|": z3.Or, "^": z3.Xor}[op](x.b, y.b)
            return from_bool(f, ty)
        xv = x.t.as_long() if z3.is_int_value(x.t) else None
        yv = y.t.as_long() if z3.is_int_value(y.t) else None
        if xv is not None and yv is not None:
            r = {"&": xv & yv, "|": xv | yv, "^": xv ^ yv}[op]
            return CV(ty, z3.IntVal(S.wrap(r, ty.bits, ty.signed)))
        if op == "&":
            for c, o in ((xv, y), (yv, x)):
                if c is not None and c >= 0 and (c & (c + 1)) == 0:     # mask 2^k - 1
                    # two's complement: v & (2^k-1) == v mod 2^k (also for negative v)
                    if c == 0:
                        return CV(ty, z3.IntVal(0))
                    r = o.t % (c + 1)
                    if c == 1:
                        return CV(ty, r, b=(r == 1))
                    return CV(ty, r)
            if x.b is not None or y.b is not None:
                bb, o = (x, y) if x.b is not None else (y, x)
                # (0/1) & v  ==  (v odd) if bit else 0
                r = z3.If(bb.b, o.t % 2, z3.IntVal(0))
                return CV(ty, r, b=z3.And(bb.b, o.t % 2 == 1))
            for c, o in ((xv, y), (yv, x)):
                if c is not None and c > 0 and (not ty.signed or c <= ty.max):
                    # general non-negative constant mask: sum over its runs of set bits [lo, lo+len):
                    # ((v div 2^lo) mod 2^len) * 2^lo   (two's complement; lemma and-mask-runs in contracts/idioms.py)
                    r, k = z3.IntVal(0), 0
                    while (1 << k) <= c:
                        if c & (1 << k):
                            lo = k
                            while c & (1 << k):
                                k += 1
                            r = r + ((o.t / (1 << lo)) % (1 << (k - lo))) * (1 << lo)
                        else:
                            k += 1
                    return CV(ty, r, sym=("and", x, y))
        if op == "|" and (x.b is not None or y.b is not None):
            # v | bit: sets bit 0 (v even: v+1, no carry; v odd: v) -- two's complement, any width/sign
            bb, o = (x, y) if x.b is not None else (y, x)
            return CV(ty, z3.If(bb.b, z3.If(o.t % 2 == 0, o.t + 1, o.t), o.t), sym=("or", x, y))
        if op == "|":
            # semantic idiom decided by the solver under the current path: one operand is a multiple of 2^k and the
            # other lies in [0, 2^k) (disjoint bits)  =>  x | y == x + y   (lemma or-disjoint in contracts/idioms.py)
            from .core import check_sat as _cs, qf_part as _qf
            qf = _qf(st.path)         # decided on the quantifier-free part of the path first (weaker hypotheses: `unsat` stays valid)
            for path in ((qf, list(st.path)) if len(qf) != len(st.path) else (qf,)):
                for u, v in ((x, y), (y, x)):
                    ks = range(1, min(ty.bits, 33))
                    if z3.is_int_value(u.t) and u.t.as_long() > 0:
                        c = u.t.as_long()
                        ks = [(c & -c).bit_length() - 1]         # a constant: the only useful k is its number of trailing zero bits
                        if ks[0] == 0:
                            continue
                    elif z3.is_int_value(v.t) and path is not qf:
                        continue
                    for k in ks:
                        cond = z3.And(u.t % (1 << k) == 0, u.t >= 0, v.t >= 0, v.t < (1 << k))
                        if _cs(path + [z3.Not(cond)], 2) == z3.unsat:
                            return CV(ty, u.t + v.t, sym=("or", x, y))
            # exact when one operand is zero; otherwise the island
            isl = self.island(op, x, y, ty)
            return CV(ty, z3.If(x.t == 0, y.t, z3.If(y.t == 0, x.t, isl)), sym=("or", x, y))
        if op == "^":
            return CV(ty, self.island(op, x, y, ty), sym=("xor", x, y))
        return CV(ty, self.island(op, x, y, ty), sym=("and", x, y))

    def msb(self, v):
        """most significant bit of v (two's complement, width of v.ty) as a Bool; bitwise operators
        act bit by bit, so msb(x op y) == msb(x) op msb(y) (proved in BV by the idiom lemmas)."""
        if v.sym and v.sym[0] in ("xor", "and", "or") and v.sym[1].ty.bits == v.ty.bits and v.sym[2].ty.bits == v.ty.bits:
            a, b = self.msb(v.sym[1]), self.msb(v.sym[2])
            return {"xor": z3.Xor, "and": z3.And, "or": z3.Or}[v.sym[0]](a, b)
        if v.b is not None and v.ty.bits > 1:
            return z3.BoolVal(False)
        if v.ty.signed:
            return v.t < 0
        return v.t >= (1 << (v.ty.bits - 1))

    def island(self, op, x, y, ty):
        w = ty.bits
        bx, by = z3.Int2BV(x.t, w), z3.Int2BV(y.t, w)
        r = {"&": bx & by, "|": bx | by, "^": bx ^ by}[op]
        return z3.BV2Int(r, is_signed=ty.signed)

    def nosan_shift(self):
        """the enclosing function carries __attribute__((no_sanitize("shift"))): the source opts out of the C shift
        rules on purpose and validates the result afterwards"""
        for c in self.func.get("inner", []) or []:
            if c.get("kind") == "NoSanitizeAttr":
                return True
        return False

    def shift(self, st, op, x, k, ty, node):
        w = ty.bits
        if self.nosan_shift():
            # target semantics instead of C's: the count is masked to the operand width, << wraps (two's complement),
            # >> of a negative value is arithmetic (x86-64 / AArch64; stated assumption, no UB obligation)
            self.assumptions.add("inside functions marked no_sanitize(\"shift\"): shift counts are masked to the operand width and "
                                 "<< wraps in two's complement (x86-64 / AArch64 behaviour), as the source itself relies on")
            km = k.t % w
            p = S.pow2(km) if not z3.is_int_value(km) else z3.IntVal(1 << km.as_long())
            if op == "<<":
                return CV(ty, S.wrap(x.t * p, w, ty.signed))
            return CV(ty, S.floordiv(x.t, p) if not z3.is_int_value(p) else x.t / p)
        self.oblige(st, "ub", "shift_count", z3.And(k.t >= 0, k.t < w), node)
        kk = k.t
        p = z3.IntVal(1 << kk.as_long()) if z3.is_int_value(kk) and 0 <= kk.as_long() < 200 else S.pow2(kk)
        if op == "<<":
            m = x.t * p
            if z3.is_int_value(x.t) and z3.is_int_value(p):
                m = z3.IntVal(x.t.as_long() * p.as_long())
                if not ty.signed:
                    return CV(ty, z3.IntVal(m.as_long() % (1 << w)))
            if ty.signed:
                if not self.opt["wrapv"]:
                    self.oblige(st, "ub", "shift_negative", x.t >= 0, node)
                    self.oblige(st, "ub", "signed_overflow.shl", m <= ty.max, node)
                    return CV(ty, m)
                return CV(ty, S.wrap(m, w, True))
            return CV(ty, m % (1 << w))
        if not ty.signed and z3.is_int_value(kk) and kk.as_long() == w - 1 and x.sym:
            return from_bool(self.msb(x), ty)
        if ty.signed:
            self.assumptions.add(">> of a negative signed value is an arithmetic shift (implementation-defined; gcc/clang)")
        if z3.is_int_value(p):
            return CV(ty, x.t / p)       # z3 div by positive numeral == floor
        return CV(ty, S.floordiv(x.t, p))

    def binop(self, st, op, x, y, ty, node):
        """x, y already converted by clang's implicit casts to the common type."""
        if isinstance(x, Ptr) or isinstance(y, Ptr):
            return self.ptr_binop(st, op, x, y, ty, node)
        if x.ty.is_float() or y.ty.is_float():
            return self.fbinop(st, op, x, y, ty, node)
        if op in ("+", "-", "*"):
            m = {"+": x.t + y.t, "-": x.t - y.t, "*": x.t * y.t}[op]
            if op == "*":
                # 0/1 factor: keep the product linear
                if x.b is not None:
                    m = z3.If(x.b, y.t, z3.IntVal(0))
                elif y.b is not None:
                    m = z3.If(y.b, x.t, z3.IntVal(0))
            return self.fit(st, ty, m, node, {"+": "add", "-": "sub", "*": "mul"}[op])
        if op in ("/", "%"):
            self.oblige(st, "ub", "div_by_zero", y.t != 0, node)
            if ty.signed:
                self.oblige(st, "ub", "div_overflow", z3.Not(z3.And(x.t == ty.min, y.t == -1)), node)
            q, r = self.tdiv(st, x.t, y.t, node)
            return CV(ty, q if op == "/" else r)
        if op in ("&", "|", "^"):
            return self.bitop(st, op, x, y, ty, node)
        if op in ("<<", ">>"):
            return self.shift(st, op, x, y, ty, node)
        if op in ("<", ">", "<=", ">=", "==", "!="):
            if op in ("<", ">=") and x.sym and x.sym[0] == "xor" and z3.is_int_value(y.t) \
                    and y.t.as_long() == 0 and x.ty.signed:
                # sign bit of a^b is set iff exactly one of a, b is negative (two's complement)
                _, a, b = x.sym
                neg = z3.Xor(a.t < 0, b.t < 0)
                return from_bool(neg if op == "<" else z3.Not(neg), ty)
            if x.b is not None and z3.is_int_value(y.t) and op in ("==", "!="):
                c = y.t.as_long()
                f = x.b if c == 1 else z3.Not(x.b) if c == 0 else z3.BoolVal(False)
                return from_bool(f if op == "==" else z3.Not(f), ty)
            f = {"<": x.t < y.t, ">": x.t > y.t, "<=": x.t <= y.t, ">=": x.t >= y.t,
                 "==": x.t == y.t, "!=": x.t != y.t}[op]
            return from_bool(f, ty)
        raise OutOfSubset("binary operator %s" % op)

    def fbinop(self, st, op, x, y, ty, node):
        if op in ("+", "-", "*", "/"):
            if op == "*":
                # 0/1-valued integer factor converted to double: case split instead of fp.mul
                for a, b in ((x, y), (y, x)):
                    bb = getattr(a, "b", None)
                    if bb is not None:
                        # 1.0*v == v ; 0.0*v == +-0 (NaN for inf/NaN v) -- exact IEEE, computed by fpMul on constants
                        one = z3.FPVal(1.0, fp_sort(ty))
                        zero = z3.FPVal(0.0, fp_sort(ty))
                        return CV(ty, z3.If(bb, z3.fpMul(RNE, one, b.t), z3.fpMul(RNE, zero, b.t)))
            if self.opt.get("fp_abstract"):
                # IEEE operation as an uninterpreted function shared with the spec (fp_op): enough for obligations that
                # only need "the same operation on the same operands", and it keeps the FP solver out of the query
                return CV(ty, fp_op(op, ty.bits)(x.t, y.t))
            f = {"+": z3.fpAdd, "-": z3.fpSub, "*": z3.fpMul, "/": z3.fpDiv}[op]
            return CV(ty, f(RNE, x.t, y.t))
        if op in ("<", ">", "<=", ">=", "==", "!="):
            f = {"<": z3.fpLT, ">": z3.fpGT, "<=": z3.fpLEQ, ">=": z3.fpGEQ, "==": z3.fpEQ,
                 "!=": lambda a, b: z3.Not(z3.fpEQ(a, b))}[op]
            return from_bool(f(x.t, y.t), ty)
        raise OutOfSubset("float operator %s" % op)

    # ---------------------------------------------------------------- memory
    def ptr_formed(self, st, obj, off, node):
        """C11 6.5.6p8: pointer arithmetic must stay inside the object or one past its end"""
        o = st.objs.get(obj) if isinstance(obj, str) else None
        if o is not None and o.length is not None:
            self.oblige(st, "ub", "ptr_arith.stays_in_object.%s" % obj.split("#")[0], z3.And(off >= 0, off <= o.length), node)

    def ptr_binop(self, st, op, x, y, ty, node):
        if op in ("+", "-") and isinstance(x, Ptr) and not isinstance(y, Ptr):
            off = x.off + y.t if op == "+" else x.off - y.t
            self.ptr_formed(st, x.obj, off, node)
            return Ptr(x.ty, x.obj, off)
        if op == "+" and isinstance(y, Ptr):
            self.ptr_formed(st, y.obj, y.off + x.t, node)
            return Ptr(y.ty, y.obj, y.off + x.t)
        if op == "-" and isinstance(x, Ptr) and isinstance(y, Ptr) and x.obj == y.obj:
            return CV(ty, x.off - y.off)
        if op in ("==", "!=") and isinstance(x, Ptr) and isinstance(y, Ptr):
            if x.obj == y.obj:
                f = (x.off == y.off) if x.obj is not None else z3.BoolVal(True)
            elif x.obj is None and is_nullable(y):
                f = y.off == 0
            elif y.obj is None and is_nullable(x):
                f = x.off == 0
            else:
                f = z3.BoolVal(False)
            return from_bool(f if op == "==" else z3.Not(f), ty)
        if op in ("<", ">", "<=", ">=") and isinstance(x, Ptr) and isinstance(y, Ptr) and x.obj == y.obj:
            f = {"<": x.off < y.off, ">": x.off > y.off, "<=": x.off <= y.off, ">=": x.off >= y.off}[op]
            return from_bool(f, ty)
        raise OutOfSubset("pointer arithmetic %s" % op)

    def load(self, st, p, node):
        if not isinstance(p, Ptr) or p.obj is None:
            raise OutOfSubset("load through a non-modelled pointer")
        o = st.objs[p.obj]
        if o.length is None:
            raise OutOfSubset("access to object %s of unknown extent" % p.obj)
        self.oblige(st, "ub", "oob_read." + p.obj, z3.And(p.off >= 0, p.off < o.length), node)
        if o.elem.is_ptr():
            if getattr(o, "holds_pyobj", False):
                val = z3.simplify(z3.Select(st.mem[p.obj], p.off))
                if z3.is_int_value(val) and val.as_long() == 0:
                    return Ptr(o.elem, None, z3.IntVal(0))          # the cell holds NULL
                return Ptr(o.elem, "pyobj", val)
            if getattr(o, "target", None):
                # pointer cell into a known buffer: the cell holds the element offset
                return Ptr(o.elem, o.target, z3.simplify(z3.Select(st.mem[p.obj], p.off)))
            # pointer-valued elements are opaque objects
            return Ptr(o.elem, "%s[]" % p.obj, z3.IntVal(0))
        t = z3.simplify(z3.Select(st.mem[p.obj], p.off))
        if o.elem.kind == "int":
            # an object of integer type holds a value of that type (the instance, for this element, of the range fact stated when
            # the object was created; it survives havocs of the array by loop invariants)
            st.path.append(z3.And(t >= o.elem.min, t <= o.elem.max))
        view = getattr(p.ty, "pointee", None)
        if (view is not None and view.kind == "int" and o.elem.kind == "int" and view.bits == 8 and o.elem.bits == 8
                and view.signed != o.elem.signed):
            # char object read through a pointer to the other char signedness (C11 6.5p7 allows it): same byte, other view
            t2 = t % 256 if not view.signed else z3.If(t >= 128, t - 256, t)
            return CV(view, z3.simplify(t2))
        return CV(o.elem, t)

    def store(self, st, p, v, node):
        if not isinstance(p, Ptr) or p.obj is None:
            raise OutOfSubset("store through a non-modelled pointer")
        o = st.objs[p.obj]
        if o.length is None:
            raise OutOfSubset("access to object %s of unknown extent" % p.obj)
        self.oblige(st, "ub", "oob_write." + p.obj, z3.And(p.off >= 0, p.off < o.length), node)
        self.__dict__.setdefault("written", set()).add(p.obj)
        if isinstance(v, Ptr):
            if getattr(o, "target", None) and v.obj == o.target:
                st.mem[p.obj] = z3.Store(st.mem[p.obj], p.off, v.off)
                return
            if v.obj is None and getattr(o, "holds_pyobj", False):
                st.mem[p.obj] = z3.Store(st.mem[p.obj], p.off, z3.IntVal(0))      # NULL: identity 0
                return
            if v.obj == "pyobj" and o.elem.is_ptr():
                # an array of object pointers (e.g. the parts of a string join): the cells hold object identities
                o.holds_pyobj = True
                st.mem[p.obj] = z3.Store(st.mem[p.obj], p.off, v.off)
                return
            raise OutOfSubset("store of a pointer into %s" % p.obj)
        st.mem[p.obj] = z3.Store(st.mem[p.obj], p.off, v.t)

    def new_obj(self, st, name, elem, length, init=None):
        o = MemObj(name, elem, length)
        st.objs[name] = o
        rng = z3.IntSort() if elem.is_int() or elem.is_ptr() else fp_sort(elem)
        st.mem[name] = init if init is not None else z3.Const(name + "@0", z3.ArraySort(z3.IntSort(), rng))
        return o

    # ---------------------------------------------------------------- lvalues
    def lval(self, st, n):
        """-> ('var', id) | ('mem', Ptr)"""
        k = n["kind"]
        if k == "ParenExpr":
            return self.lval(st, n["inner"][0])
        if k == "DeclRefExpr":
            rid = n["referencedDecl"]["id"]
            v = st.vars.get(rid)
            if isinstance(v, tuple) and v[0] == "array":
                return ("mem", Ptr(node_type(n), v[1], z3.IntVal(0)))
            if rid not in st.vars and rid not in st.names:
                g = self.global_var(st, n)
                if g is not None:
                    return g
            return ("var", rid)
        if k == "UnaryOperator" and n["opcode"] == "*":
            return ("mem", self.ev(st, n["inner"][0]))
        if k == "ArraySubscriptExpr":
            base = self.ev(st, n["inner"][0])
            idx = self.ev(st, n["inner"][1])
            if isinstance(idx, Ptr):
                base, idx = idx, base
            return ("mem", Ptr(base.ty, base.obj, base.off + idx.t))
        if k == "MemberExpr":
            return self.member_lval(st, n)
        raise OutOfSubset("lvalue kind %s" % k)

    def global_var(self, st, n):
        return None

    def member_lval(self, st, n):
        base_n = n["inner"][0]
        fname = n["name"]
        if n.get("isArrow"):
            base = self.ev(st, base_n)
            if not isinstance(base, Ptr) or base.obj is None:
                raise OutOfSubset("-> on a non-modelled pointer")
            oname = "%s.%s" % (base.obj, fname)
        else:
            lv = self.lval(st, base_n)
            if lv[0] == "var" and isinstance(st.vars.get(lv[1]), tuple) and st.vars[lv[1]][0] == "struct":
                return ("sfield", lv[1], fname)
            if lv[0] == "var":
                oname = "%s.%s" % (st.names.get(lv[1], lv[1]), fname)
            else:
                oname = "%s.%s" % (lv[1].obj, fname)
        if oname not in st.objs:
            raise OutOfSubset("struct field %s not described by the contract" % oname)
        return ("mem", Ptr(node_type(n), oname, z3.IntVal(0)))

    def read_lval(self, st, lv, node):
        if lv[0] == "var":
            if lv[1] not in st.vars:
                raise OutOfSubset("read of unmodelled variable %s" % st.names.get(lv[1], lv[1]))
            v = st.vars[lv[1]]
            if v is None:
                # reading an indeterminate value: obligation (discharged iff the path is infeasible), then havoc
                self.oblige(st, "ub", "uninitialised_read." + st.names.get(lv[1], "?"), False, node)
                ty = node_type(node)
                if ty.is_int():
                    t = self.fresh("indet")
                    st.path.append(z3.And(t >= ty.min, t <= ty.max))
                    return CV(ty, t)
                raise OutOfSubset("read of uninitialised non-integer variable")
            return v
        if lv[0] == "const":
            return lv[1]
        if lv[0] == "sfield":
            flds = st.vars[lv[1]][1]
            if lv[2] not in flds:
                self.oblige(st, "ub", "uninitialised_read.%s.%s" % (st.names.get(lv[1], "?"), lv[2]), False, node)
                raise OutOfSubset("read of an uninitialised struct field")
            return flds[lv[2]]
        p = lv[1]
        o = st.objs.get(p.obj)
        if o is not None and o.elem.kind == "array":
            return p
        return self.load(st, p, node)

    def write_lval(self, st, lv, v, node):
        if lv[0] == "var":
            st.vars[lv[1]] = v
        elif lv[0] == "sfield":
            flds = dict(st.vars[lv[1]][1])
            flds[lv[2]] = v
            st.vars[lv[1]] = ("struct", flds)
        elif lv[0] == "const":
            raise OutOfSubset("write to a global that is not modelled")
        else:
            self.store(st, lv[1], v, node)

    # ---------------------------------------------------------------- expressions
    def ev(self, st, n):
        self.steps += 1
        if self.steps > self.opt["max_steps"]:
            raise OutOfSubset("step budget exceeded (unbounded loop without invariant?)")
        k = n["kind"]
        m = getattr(self, "ev_" + k, None)
        if m is None:
            raise OutOfSubset("expression kind %s" % k)
        return m(st, n)

    def ev_ParenExpr(self, st, n):
        return self.ev(st, n["inner"][0])

    def ev_ConstantExpr(self, st, n):
        return self.ev(st, n["inner"][0])

    def ev_IntegerLiteral(self, st, n):
        return int_val(node_type(n), int(n["value"]))

    def ev_CharacterLiteral(self, st, n):
        return int_val(node_type(n), int(n["value"]))

    def ev_StringLiteral(self, st, n):
        return Ptr(node_type(n), "strlit", z3.IntVal(0))

    def ev_FloatingLiteral(self, st, n):
        ty = node_type(n)
        return CV(ty, z3.FPVal(float(n["value"]), fp_sort(ty)))

    def ev_ImplicitCastExpr(self, st, n):
        ck = n.get("castKind")
        sub = n["inner"][0]
        if ck == "LValueToRValue":
            return self.read_lval(st, self.lval(st, sub), n)
        if ck in ("NoOp", "FunctionToPointerDecay", "BuiltinFnToFnPtr"):
            return self.ev(st, sub)
        if ck == "ArrayToPointerDecay":
            s2 = sub
            while s2["kind"] == "ParenExpr":
                s2 = s2["inner"][0]
            if s2["kind"] in ("StringLiteral", "PredefinedExpr"):
                return Ptr(node_type(n), "strlit", z3.IntVal(0))
            lv = self.lval(st, sub)
            if lv[0] == "mem":
                return Ptr(node_type(n), lv[1].obj, lv[1].off)
            raise OutOfSubset("array decay of a non-memory object")
        v = self.ev(st, sub)
        ty = node_type(n)
        if ck in ("IntegralCast", "IntegralToFloating", "FloatingToIntegral", "FloatingCast", "BitCast",
                  "IntegralToBoolean", "FloatingToBoolean", "PointerToBoolean", "ToVoid"):
            if ck == "BitCast" and not (isinstance(v, Ptr) and ty.is_ptr()):
                raise OutOfSubset("BitCast")
            if ck in ("IntegralToBoolean", "FloatingToBoolean", "PointerToBoolean"):
                return from_bool(as_bool(v), ty)
            return self.convert(st, v, ty, n)
        if ck == "NullToPointer":
            return Ptr(ty, None, z3.IntVal(0))
        raise OutOfSubset("cast kind %s" % ck)

    def ev_CStyleCastExpr(self, st, n):
        ck = n.get("castKind")
        if ck == "ToVoid":
            self.ev(st, n["inner"][0])
            return None
        return self.ev_ImplicitCastExpr(st, n)

    def ev_DeclRefExpr(self, st, n):
        # only reached for enum constants / function refs (variables go through LValueToRValue)
        rd = n["referencedDecl"]
        if rd["kind"] == "EnumConstantDecl":
            v = self.enum_value(rd)
            return int_val(node_type(n), v)
        if rd["kind"] == "FunctionDecl":
            return ("func", rd["name"])
        return self.read_lval(st, self.lval(st, n), n)

    def enum_value(self, rd):
        vals = self.opt.get("enum_values") or {}
        if rd.get("name") in vals:
            self.assumptions.add("enum constant %s == %d (value taken from the CPython 3.12 headers)" % (rd.get("name"), vals[rd["name"]]))
            return vals[rd["name"]]
        raise OutOfSubset("enum constant %s" % rd.get("name"))

    def ev_UnaryExprOrTypeTraitExpr(self, st, n):
        if n.get("name") != "sizeof":
            raise OutOfSubset("type trait %s" % n.get("name"))
        if "argType" in n:
            t = parse_type(n["argType"].get("desugaredQualType") or n["argType"]["qualType"])
        else:
            t = node_type(n["inner"][0])
        if t.kind == "array":
            sz = t.pointee.size() * t.count
        else:
            sz = t.size()
        return int_val(node_type(n), sz)

    def ev_UnaryOperator(self, st, n):
        op = n["opcode"]
        sub = n["inner"][0]
        ty = node_type(n)
        if op in ("++", "--"):
            lv = self.lval(st, sub)
            old = self.read_lval(st, lv, n)
            one = int_val(old.ty, 1) if not isinstance(old, Ptr) else int_val(parse_type("long"), 1)
            new = self.binop(st, "+" if op == "++" else "-", old, one, old.ty, n)
            self.write_lval(st, lv, new, n)
            return old if n.get("isPostfix") else new
        if op == "&":
            lv = self.lval(st, sub)
            if lv[0] == "mem":
                return Ptr(ty, lv[1].obj, lv[1].off)
            # address of a local scalar: promote it to a one-element memory object
            rid = lv[1]
            nm = "&" + st.names.get(rid, rid)
            cur = st.vars.get(rid)
            ety = node_type(sub)
            objptr = ety.is_ptr() and (cur is None or (isinstance(cur, Ptr) and cur.obj in ("pyobj", None)))
            if not (ety.is_int() or ety.is_float() or objptr):
                raise OutOfSubset("address of non-scalar local")
            o = self.new_obj(st, nm, ety, z3.IntVal(1))
            if objptr:
                # a local holding an object pointer (NULL = identity 0): a one-element array of object identities
                o.holds_pyobj = True
                if cur is not None:
                    st.mem[nm] = z3.Store(st.mem[nm], 0, cur.off)
            elif cur is not None:
                st.mem[nm] = z3.Store(st.mem[nm], 0, cur.t)
            st.vars[rid] = ("array", nm)
            return Ptr(ty, nm, z3.IntVal(0))
        if op == "*":
            return self.load(st, self.ev(st, sub), n)
        v = self.ev(st, sub)
        if op == "+":
            return v
        if op == "-":
            if v.ty.is_float():
                return CV(ty, z3.fpNeg(v.t))
            return self.fit(st, ty, -v.t, n, "neg")
        if op == "~":
            # two's complement: ~x == -x-1 (signed); 2^w-1-x (unsigned)
            if ty.signed:
                return CV(ty, -v.t - 1)
            return CV(ty, (1 << ty.bits) - 1 - v.t)
        if op == "!":
            return from_bool(z3.Not(as_bool(v)), ty)
        raise OutOfSubset("unary operator %s" % op)

    def ev_BinaryOperator(self, st, n):
        op = n["opcode"]
        a, b = n["inner"]
        ty = node_type(n)
        if op == "=":
            v = self.ev(st, b)
            lv = self.lval(st, a)
            self.write_lval(st, lv, v, n)
            return v
        if op == ",":
            self.ev(st, a)
            return self.ev(st, b)
        if op in ("&&", "||"):
            x = self.ev(st, a)
            cx = as_bool(x)
            s2 = st.copy()
            s2.path.append(cx if op == "&&" else z3.Not(cx))
            y = self.ev(s2, b)
            cy = as_bool(y)
            self.merge_expr(st, cx if op == "&&" else z3.Not(cx), s2, None)
            return from_bool(z3.And(cx, cy) if op == "&&" else z3.Or(cx, cy), ty)
        x = self.ev(st, a)
        y = self.ev(st, b)
        return self.binop(st, op, x, y, ty, n)

    def ev_CompoundAssignOperator(self, st, n):
        op = n["opcode"][:-1]
        a, b = n["inner"]
        lv = self.lval(st, a)
        old = self.read_lval(st, lv, n)
        y = self.ev(st, b)
        if isinstance(old, Ptr):
            new = self.ptr_binop(st, op, old, y, old.ty, n)
            self.write_lval(st, lv, new, n)
            return new
        cty = parse_type((n.get("computeResultType") or n["type"]).get("desugaredQualType")
                         or (n.get("computeResultType") or n["type"])["qualType"])
        lty = parse_type((n.get("computeLHSType") or n["type"]).get("desugaredQualType")
                         or (n.get("computeLHSType") or n["type"])["qualType"])
        x = self.convert(st, old, lty, n)
        if op not in ("<<", ">>"):
            y = self.convert(st, y, cty, n) if not isinstance(y, Ptr) else y
        r = self.binop(st, op, x, y, cty, n)
        new = self.convert(st, r, old.ty, n)
        self.write_lval(st, lv, new, n)
        return new

    def merge_expr(self, st, c, s1, s2):
        """merge sub-states evaluated under c (s1) and not c (s2; None = st itself unchanged) into st."""
        base = len(st.path)
        if s2 is None:
            s2 = st.copy()
            s2.path.append(z3.Not(c))
        merged = self.merge_states(st.path, c, s1, s2, base)
        st.vars, st.mem, st.path = merged.vars, merged.mem, merged.path

    def mem_default(self, key):
        """value of a ghost memory cell that has not been written on a path (None: no such notion for this key)"""
        return None

    def merge_states(self, prefix, c, s1, s2, base):
        m = State()
        m.objs, m.names, m.err = s1.objs, s1.names, s1.err
        m.path = list(prefix)
        for extra in s1.path[base + 1:]:
            m.path.append(z3.Implies(c, extra))
        for extra in s2.path[base + 1:]:
            m.path.append(z3.Implies(z3.Not(c), extra))
        for key in set(s1.vars) | set(s2.vars):
            v1, v2 = s1.vars.get(key), s2.vars.get(key)
            m.vars[key] = self.merge_val(c, v1, v2)
        for key in set(s1.mem) | set(s2.mem):
            a1, a2 = s1.mem.get(key), s2.mem.get(key)
            if a1 is None or a2 is None:
                # ghost state with a known "not written yet" value must not leak from the branch that wrote it into the other one
                d = self.mem_default(key)
                if d is not None:
                    a1, a2 = (a1 if a1 is not None else d), (a2 if a2 is not None else d)
                    m.mem[key] = a1 if a1.eq(a2) else z3.If(c, a1, a2)
                    continue
                m.mem[key] = a1 if a1 is not None else a2
            elif a1.eq(a2):
                m.mem[key] = a1
            else:
                m.mem[key] = z3.If(c, a1, a2)
        if s1.err is not None and s2.err is not None and not s1.err.eq(s2.err):
            m.err = z3.If(c, s1.err, s2.err)
        return m

    def merge_val(self, c, v1, v2):
        if v1 is v2:
            return v1
        if v1 is None or v2 is None:
            return None if (v1 is None and v2 is None) else (v1 if v2 is None else v2)
        if isinstance(v1, tuple) or isinstance(v2, tuple):
            if v1 == v2:
                return v1
            raise MergeFail()
        if isinstance(v1, Ptr) or isinstance(v2, Ptr):
            if isinstance(v1, Ptr) and isinstance(v2, Ptr) and v1.obj == v2.obj:
                if v1.off.eq(v2.off):
                    return v1
                return Ptr(v1.ty, v1.obj, z3.If(c, v1.off, v2.off))
            raise MergeFail()
        if v1.t.eq(v2.t):
            return v1
        b = None
        if v1.b is not None and v2.b is not None:
            b = z3.If(c, v1.b, v2.b)
        return CV(v1.ty, z3.If(c, v1.t, v2.t), b=b)

    def ev_ConditionalOperator(self, st, n):
        c0, a, b = n["inner"]
        cv = self.ev(st, c0)
        c = z3.simplify(as_bool(cv))
        if z3.is_true(c):
            return self.ev(st, a)
        if z3.is_false(c):
            return self.ev(st, b)
        s1, s2 = st.copy(), st.copy()
        s1.path.append(c)
        s2.path.append(z3.Not(c))
        x = self.ev(s1, a)
        y = self.ev(s2, b)
        base = len(st.path)
        m = self.merge_states(st.path, c, s1, s2, base)
        st.vars, st.mem, st.path = m.vars, m.mem, m.path
        if x is None or y is None:
            return None
        return self.merge_val(c, x, y)

    def ev_CallExpr(self, st, n):
        callee = n["inner"][0]
        while callee["kind"] in ("ImplicitCastExpr", "ParenExpr"):
            callee = callee["inner"][0]
        if callee["kind"] != "DeclRefExpr":
            raise OutOfSubset("indirect call")
        name = callee["referencedDecl"]["name"]
        argn = n["inner"][1:]
        return self.call(st, name, argn, n)

    def call(self, st, name, argn, n):
        ty = node_type(n)
        if name == "__builtin_expect":
            v = self.ev(st, argn[0])
            self.ev(st, argn[1])
            return v
        if name == "__builtin_constant_p":
            # compile-time knowledge of the optimiser: both answers are possible
            self.assumptions.add("__builtin_constant_p(x) is treated as an arbitrary 0/1 value (both branches verified)")
            c = self.fresh("constant_p", z3.BoolSort())
            return from_bool(c, ty)
        if name in ("__builtin_unreachable",):
            self.oblige(st, "ub", "unreachable", False, n)
            return None
        m = re.match(r"__builtin_(s|u)?(add|sub|mul)(l|ll)?_overflow$", name)
        if m:
            return self.builtin_overflow(st, m, argn, n)
        if name in ("copysign", "copysignf", "__builtin_copysign", "__builtin_copysignf"):
            x, y = self.ev(st, argn[0]), self.ev(st, argn[1])
            self.assumptions.add("copysign(x, y) returns |x| with the sign bit of y (C11 7.12.11.1)")
            return CV(ty, z3.If(z3.fpIsNegative(y.t), z3.fpNeg(z3.fpAbs(x.t)), z3.fpAbs(x.t)))
        if name in ("floor", "floorf", "__builtin_floor", "__builtin_floorf"):
            x = self.ev(st, argn[0])
            self.assumptions.add("floor(x): the largest integral value not greater than x, exact (C11 7.12.9.2 / IEEE roundToIntegralTowardNegative)")
            return CV(ty, z3.fpRoundToIntegral(z3.RTN(), x.t))
        if name in ("fmod", "fmodf"):
            x, y = self.ev(st, argn[0]), self.ev(st, argn[1])
            return CV(ty, self.fmod(st, x.t, y.t, ty))
        if name in ("memcpy", "__builtin_memcpy", "__builtin___memcpy_chk"):
            d, s_, cnt = self.ev(st, argn[0]), self.ev(st, argn[1]), self.ev(st, argn[2])
            for extra in argn[3:]:
                self.ev(st, extra)
            if not (isinstance(d, Ptr) and isinstance(s_, Ptr) and d.obj in st.objs and s_.obj in st.objs):
                raise OutOfSubset("memcpy on non-modelled pointers")
            od, os_ = st.objs[d.obj], st.objs[s_.obj]
            if od.length is None or os_.length is None:
                raise OutOfSubset("memcpy on an object of unknown extent")
            n_ = cnt.t
            self.oblige(st, "ub", "memcpy.dst_in_bounds." + d.obj, z3.And(n_ >= 0, d.off >= 0, d.off + n_ <= od.length), n)
            self.oblige(st, "ub", "memcpy.src_in_bounds." + s_.obj, z3.And(s_.off >= 0, s_.off + n_ <= os_.length), n)
            if d.obj == s_.obj:
                self.oblige(st, "ub", "memcpy.no_overlap", z3.Or(n_ == 0, d.off + n_ <= s_.off, s_.off + n_ <= d.off), n)
            self.assumptions.add("memcpy(d, s, n) copies n elements (C11 7.24.2.1); modelled on element offsets of byte arrays")
            i = z3.Int("i!memcpy")
            self.__dict__.setdefault("written", set()).add(d.obj)
            src_arr, dst_arr = st.mem[s_.obj], st.mem[d.obj]
            st.mem[d.obj] = z3.Lambda([i], z3.If(z3.And(i >= d.off, i < d.off + n_),
                                                 z3.Select(src_arr, i - d.off + s_.off), z3.Select(dst_arr, i)))
            return d
        if name in ("memcmp", "__builtin_memcmp"):
            a_, b_, cnt = self.ev(st, argn[0]), self.ev(st, argn[1]), self.ev(st, argn[2])
            if not (isinstance(a_, Ptr) and isinstance(b_, Ptr) and a_.obj in st.objs and b_.obj in st.objs):
                raise OutOfSubset("memcmp on non-modelled pointers")
            oa, ob_ = st.objs[a_.obj], st.objs[b_.obj]
            if oa.length is None or ob_.length is None:
                raise OutOfSubset("memcmp on an object of unknown extent")
            n_ = cnt.t
            self.oblige(st, "ub", "memcmp.first_in_bounds." + str(a_.obj), z3.And(n_ >= 0, a_.off >= 0, a_.off + n_ <= oa.length), n)
            self.oblige(st, "ub", "memcmp.second_in_bounds." + str(b_.obj), z3.And(n_ >= 0, b_.off >= 0, b_.off + n_ <= ob_.length), n)
            self.assumptions.add("memcmp(a, b, n) == 0 iff the first n bytes are equal (C11 7.24.4.1)")
            i = z3.Int("i!memcmp")
            r = self.fresh("memcmp")
            st.path.append(z3.And(r >= -255, r <= 255))
            st.path.append((r == 0) == z3.ForAll([i], z3.Implies(z3.And(i >= 0, i < n_),
                                                                 z3.Select(st.mem[a_.obj], a_.off + i) == z3.Select(st.mem[b_.obj], b_.off + i))))
            # a non-zero result has the sign of the difference of the first differing bytes, compared as unsigned char
            k = self.fresh("memcmp_first_diff")
            ua = z3.Select(st.mem[a_.obj], a_.off + k) % 256
            ub = z3.Select(st.mem[b_.obj], b_.off + k) % 256
            st.path.append(z3.Implies(r != 0, z3.And(k >= 0, k < n_, ua != ub, (r < 0) == (ua < ub),
                                                      z3.ForAll([i], z3.Implies(z3.And(i >= 0, i < k),
                                                                                z3.Select(st.mem[a_.obj], a_.off + i) == z3.Select(st.mem[b_.obj], b_.off + i))))))
            return CV(ty, r)
        if name in ("abs", "labs", "llabs"):
            x = self.ev(st, argn[0])
            return self.fit(st, ty, z3.If(x.t >= 0, x.t, -x.t), n, "abs")
        if name in self.contracts:
            return self.call_contract(st, name, self.contracts[name], argn, n)
        if name in self.opt["inline"] or "*" in self.opt["inline"]:
            return self.call_inline(st, name, argn, n)
        raise OutOfSubset("call to %s: no contract and not marked inline" % name)

    def builtin_overflow(self, st, m, argn, n):
        self.assumptions.add("__builtin_{add,sub,mul}_overflow behave as documented by GCC: "
                             "*res = wrapped result, returns whether the exact result does not fit")
        x, y = self.ev(st, argn[0]), self.ev(st, argn[1])
        p = self.ev(st, argn[2])
        rty = p.ty.pointee
        op = m.group(2)
        exact = {"add": x.t + y.t, "sub": x.t - y.t, "mul": x.t * y.t}[op]
        if op == "mul" and not (z3.is_int_value(x.t) or z3.is_int_value(y.t)):
            # keep the VC linear: name the product
            pr = self.fresh("prod")
            self.assume(st, pr == x.t * y.t)
            exact = pr
        self.store(st, p, CV(rty, S.wrap(exact, rty.bits, rty.signed)), n)
        return from_bool(z3.Or(exact < rty.min, exact > rty.max), node_type(n))

    def fmod(self, st, x, y, ty):
        srt = fp_sort(ty)
        f = z3.Function("fmod%d" % ty.bits, srt, srt, srt)
        r = f(x, y)
        key = "fmod-axioms"
        self.assumptions.add("fmod is an uninterpreted function constrained by C11 7.12.10.1/F.10.7.1: for finite x, "
                             "finite y != 0 the result is finite, has the sign of x, |r| < |y|; r is exactly x - n*y")
        zero = z3.FPVal(0.0, srt)
        fin = z3.And(z3.Not(z3.fpIsNaN(x)), z3.Not(z3.fpIsInf(x)), z3.Not(z3.fpIsNaN(y)),
                     z3.Not(z3.fpIsInf(y)), z3.Not(z3.fpIsZero(y)))
        self.assume(st, z3.Implies(fin, z3.And(
            z3.Not(z3.fpIsNaN(r)), z3.Not(z3.fpIsInf(r)),
            z3.fpIsNegative(r) == z3.fpIsNegative(x),
            z3.fpLT(z3.fpAbs(r), z3.fpAbs(y)))))
        # C11 F.10.7.1: fmod(x, +-inf) returns x for x not infinite; fmod(+-inf, y) and fmod(x, 0) are NaN; NaN operands give NaN
        self.assumptions.add("fmod special values (C11 F.10.7.1): fmod(x, +-inf) == x for finite x; NaN for an infinite x, a zero y or a NaN operand")
        xfin = z3.And(z3.Not(z3.fpIsNaN(x)), z3.Not(z3.fpIsInf(x)))
        self.assume(st, z3.And(z3.Implies(z3.And(xfin, z3.fpIsInf(y)), r == x),
                               z3.Implies(z3.Or(z3.fpIsNaN(x), z3.fpIsNaN(y), z3.fpIsInf(x), z3.fpIsZero(y)), z3.fpIsNaN(r))))
        return r

    def call_contract(self, st, name, con, argn, n):
        args = [self.ev(st, a) for a in argn]
        return con.apply(self, st, args, n)

    def call_inline(self, st, name, argn, n):
        args = [self.ev(st, a) for a in argn]
        sub = type(self).__new__(type(self))
        sub.__dict__.update(self.__dict__)
        try:
            sub.func = self._find_function(name)
        except StaleContract:
            raise OutOfSubset("call to %s: no contract, and its body is not part of the extracted translation unit" % name)
        sub.returns = []
        params = [c for c in sub.func.get("inner", []) if c["kind"] == "ParmVarDecl"]
        s2 = st.copy()
        for p, a in zip(params, args):
            s2.vars[p["id"]] = a
            s2.names[p["id"]] = p.get("name", "?")
        body = [c for c in sub.func["inner"] if c["kind"] == "CompoundStmt"][0]
        outs = sub.exec_block(s2, body["inner"] if "inner" in body else [])
        self.steps = sub.steps
        self.fresh_n = sub.fresh_n
        rets = [(o[1], o[2]) for o in outs if o[0] == "return"] + [(o[1], None) for o in outs if o[0] == "normal"]
        if len(rets) != 1:
            rets = self.merge_returns(st, rets)
        s3, val = rets[0]
        st.vars, st.mem, st.path, st.err = s3.vars, s3.mem, s3.path, s3.err
        return val

    def merge_returns(self, st, rets):
        """fold several (state, value) exits of an inlined call into one by ite over their path suffixes."""
        base = len(st.path)
        acc_s, acc_v = rets[-1]
        for s, v in reversed(rets[:-1]):
            conds = s.path[base:]
            # the first extra literal of each exit is its branch condition; use the conjunction
            c = z3.And(*conds) if conds else z3.BoolVal(True)
            m = State()
            m.objs, m.names = s.objs, s.names
            m.path = list(st.path)
            for extra in acc_s.path[base:]:
                m.path.append(z3.Implies(z3.Not(c), extra))
            for key in set(s.vars) | set(acc_s.vars):
                m.vars[key] = self.merge_val(c, s.vars.get(key), acc_s.vars.get(key))
            for key in set(s.mem) | set(acc_s.mem):
                a1, a2 = s.mem.get(key), acc_s.mem.get(key)
                if a1 is None or a2 is None:
                    d = self.mem_default(key)
                    if d is not None:
                        a1, a2 = (a1 if a1 is not None else d), (a2 if a2 is not None else d)
                m.mem[key] = a1 if a2 is None else a2 if a1 is None else (a1 if a1.eq(a2) else z3.If(c, a1, a2))
            m.err = s.err if acc_s.err is None or s.err is None or s.err.eq(acc_s.err) else z3.If(c, s.err, acc_s.err)
            acc_v = self.merge_val(c, v, acc_v) if v is not None and acc_v is not None else None
            acc_s = m
        return [(acc_s, acc_v)]

    # ---------------------------------------------------------------- statements
    def exec_block(self, st, stmts, start=0):
        """run stmts[start:] from st; returns outcomes [(kind, state, payload)]."""
        outs = []
        live = [st]
        i = start
        while i < len(stmts) and live:
            s = stmts[i]
            nxt = []
            for cur in live:
                # (option stmt_guard: a STATEMENT with a construct outside the subset is acceptable iff it is unreachable under the contract)
                for o in (self.guarded_branch(cur, s, s) if self.opt.get("stmt_guard") else self.exec_stmt(cur, s)):
                    if o[0] == "normal":
                        nxt.append(o[1])
                    elif o[0] == "goto":
                        j = self.find_label(stmts, o[2])
                        if j is not None:
                            if j <= i:
                                raise OutOfSubset("backward goto %s" % o[2])
                            outs.extend(self.exec_block_from_label(o[1], stmts, j))
                        else:
                            outs.append(o)
                    else:
                        outs.append(o)
            live = self.try_merge(nxt)
            i += 1
        outs.extend(("normal", s, None) for s in live)
        return outs

    def exec_block_from_label(self, st, stmts, j):
        return self.exec_block(st, stmts, j)

    def find_label(self, stmts, label):
        for j, s in enumerate(stmts):
            t = s
            while t.get("kind") == "LabelStmt":
                if t.get("name") == label:
                    return j
                t = t["inner"][0]
        return None

    def try_merge(self, states):
        if len(states) <= 1 or self.opt.get("merge") is False:
            return states        # merge=False: one VC per path (smaller formulas, more of them)
        # states produced by forking share a path prefix; merge two at a time when they differ by one literal
        out = [states[0]]
        for s in states[1:]:
            merged = False
            for k, o in enumerate(out):
                m = self.merge_two(o, s)
                if m is not None:
                    out[k] = m
                    merged = True
                    break
            if not merged:
                out.append(s)
        return out

    def merge_two(self, a, b):
        n = 0
        while n < len(a.path) and n < len(b.path) and a.path[n].eq(b.path[n]):
            n += 1
        if n >= len(a.path) or n >= len(b.path):
            return None
        ca, cb = a.path[n], b.path[n]
        if not (z3.simplify(z3.Not(ca)).eq(z3.simplify(cb)) or z3.Not(ca).eq(cb) or ca.eq(z3.Not(cb))):
            return None
        try:
            return self.merge_states(a.path[:n], ca, a, b, n)
        except MergeFail:
            return None

    def exec_stmt(self, st, n):
        self.steps += 1
        if self.steps > self.opt["max_steps"]:
            raise OutOfSubset("step budget exceeded")
        k = n["kind"]
        summ = self.opt.get("summaries")
        if summ:
            # statement summaries: a block of the function that is verified on its own (a fragment unit with the SAME contract)
            # is replaced here by that contract: its precondition becomes an obligation, its effect is its postcondition
            if getattr(self, "_summ_nodes", None) is None:
                self._summ_nodes = [(finder(self.func), summary) for finder, summary in summ]
                for node, _s in self._summ_nodes:
                    if node is None:
                        raise StaleContract("summarised statement not found in %s" % self.func.get("name"))
            for node, summary in self._summ_nodes:
                if node is n:
                    return summary(self, st, n)
        if k == "CompoundStmt":
            return self.exec_block(st, n.get("inner", []))
        if k == "DeclStmt":
            for d in n.get("inner", []):
                self.declare(st, d)
            return [("normal", st, None)]
        if k == "NullStmt":
            return [("normal", st, None)]
        if k == "ReturnStmt":
            if n.get("inner"):
                # `return c ? a : b;` with arms that do not merge into one value (NULL against a pointer into a buffer): two returns
                x = n["inner"][0]
                while x.get("kind") in ("ImplicitCastExpr", "ParenExpr", "CStyleCastExpr") and x.get("inner"):
                    x = x["inner"][0]
                if x.get("kind") == "ConditionalOperator":
                    probe = st.copy()
                    n_obl = len(self.obligations)
                    try:
                        v = self.ev(probe, n["inner"][0])
                        st.vars, st.mem, st.path = probe.vars, probe.mem, probe.path
                        return [("return", st, v)]
                    except MergeFail:
                        del self.obligations[n_obl:]
                        c0, a, b = x["inner"]
                        c = z3.simplify(as_bool(self.ev(st, c0)))
                        s1, s2 = st.copy(), st.copy()
                        s1.path.append(c)
                        s2.path.append(z3.Not(c))
                        return [("return", s1, self.ev(s1, a)), ("return", s2, self.ev(s2, b))]
            v = self.ev(st, n["inner"][0]) if n.get("inner") else None
            return [("return", st, v)]
        if k == "IfStmt":
            return self.exec_if(st, n)
        if k == "SwitchStmt":
            return self.exec_switch(st, n)
        if k in ("WhileStmt", "ForStmt", "DoStmt"):
            return self.exec_loop(st, n)
        if k == "BreakStmt":
            return [("break", st, None)]
        if k == "ContinueStmt":
            return [("continue", st, None)]
        if k == "GotoStmt":
            return [("goto", st, self.label_name(n))]
        if k == "LabelStmt":
            return self.exec_stmt(st, n["inner"][0])
        if k in ("CaseStmt", "DefaultStmt"):
            return self.exec_stmt(st, n["inner"][-1])
        if k == "AttributedStmt":
            return self.exec_stmt(st, n["inner"][-1])
        # expression statement
        self.ev(st, n)
        return [("normal", st, None)]

    def label_name(self, n):
        tid = n.get("targetLabelDeclId")
        lab = self._labels().get(tid)
        if lab is None:
            raise OutOfSubset("goto target not found")
        return lab

    def _labels(self):
        if not hasattr(self, "_label_map") or self._label_for is not self.func:
            mp = {}

            def walk(x):
                if isinstance(x, dict):
                    if x.get("kind") == "LabelStmt":
                        mp[x.get("declId")] = x.get("name")
                    for c in x.get("inner", []):
                        walk(c)
            walk(self.func)
            self._label_map, self._label_for = mp, self.func
        return self._label_map

    def declare(self, st, d):
        if d["kind"] != "VarDecl":
            if d["kind"] in ("TypedefDecl", "RecordDecl", "EnumDecl", "StaticAssertDecl"):
                return
            raise OutOfSubset("declaration kind %s" % d["kind"])
        ty = node_type(d)
        st.names[d["id"]] = d.get("name", "?")
        if ty.kind == "array":
            nm = "%s#%s" % (d.get("name"), d["id"][-4:])
            if ty.count is None:
                raise OutOfSubset("array of unknown size")
            self.new_obj(st, nm, ty.pointee, z3.IntVal(ty.count))
            st.vars[d["id"]] = ("array", nm)
            if d.get("inner"):
                init = d["inner"][0]
                if init["kind"] == "InitListExpr":
                    for i, e in enumerate(init.get("inner", [])):
                        v = self.ev(st, e)
                        st.mem[nm] = z3.Store(st.mem[nm], i, v.t)
                else:
                    raise OutOfSubset("array initialiser %s" % init["kind"])
            return
        init = [c for c in d.get("inner", []) if not c["kind"].endswith("Attr")]
        if ty.kind in ("struct", "opaque") and not init:
            # local struct variable without initialiser: a bag of (indeterminate) fields, written/read member by member
            st.vars[d["id"]] = ("struct", {})
            return
        if init:
            v = self.ev(st, init[0])
            st.vars[d["id"]] = v
        else:
            st.vars[d["id"]] = None

    def guarded_branch(self, st, stmt, node):
        """run a branch; a construct outside the subset inside it is acceptable iff the branch is unreachable
        under the contract: that becomes an obligation of kind 'subset' (never reported as a violation)."""
        entry_path = list(st.path)
        n_obl = len(self.obligations)
        try:
            return self.exec_stmt(st, stmt)
        except OutOfSubset as e:
            del self.obligations[n_obl:]
            probe = State()
            probe.path = entry_path
            self.oblige(probe, "subset", "branch_with_unmodelled_construct_is_unreachable", False, node,
                        note="branch contains: %s" % e)
            return []

    def exec_if(self, st, n):
        inner = n["inner"]
        cond, then = inner[0], inner[1]
        els = inner[2] if len(inner) > 2 else None
        c = z3.simplify(as_bool(self.ev(st, cond)))
        outs = []
        if not z3.is_false(c):
            s1 = st.copy()
            if not z3.is_true(c):
                s1.path.append(c)
            outs.extend(self.guarded_branch(s1, then, n))
        if not z3.is_true(c):
            s2 = st.copy()
            if not z3.is_false(c):
                s2.path.append(z3.Not(c))
            if els is not None:
                outs.extend(self.guarded_branch(s2, els, n))
            else:
                outs.append(("normal", s2, None))
        normals = self.try_merge([o[1] for o in outs if o[0] == "normal"])
        return [o for o in outs if o[0] != "normal"] + [("normal", s, None) for s in normals]

    def exec_switch(self, st, n):
        cond, body = n["inner"][0], n["inner"][1]
        v = self.ev(st, cond)
        if body["kind"] != "CompoundStmt":
            raise OutOfSubset("switch body is not a block")
        stmts = body.get("inner", [])
        # locate case labels (possibly nested as CaseStmt -> CaseStmt -> stmt)
        entries = []      # (index, [values] | 'default')
        for i, s in enumerate(stmts):
            t = s
            while t.get("kind") in ("CaseStmt", "DefaultStmt", "LabelStmt"):
                if t["kind"] == "CaseStmt":
                    cv = self.ev(st, t["inner"][0])
                    if not z3.is_int_value(cv.t):
                        raise OutOfSubset("non-constant case label")
                    if len(t["inner"]) > 2:
                        raise OutOfSubset("case range")
                    entries.append((i, cv.t.as_long()))
                elif t["kind"] == "DefaultStmt":
                    entries.append((i, "default"))
                t = t["inner"][-1]
        outs = []
        case_vals = [e[1] for e in entries if e[1] != "default"]
        for i, val in entries:
            s1 = st.copy()
            if val == "default":
                c = z3.And(*[v.t != cv for cv in case_vals]) if case_vals else z3.BoolVal(True)
            else:
                c = v.t == val
            c = z3.simplify(c)
            if z3.is_false(c):
                continue
            s1.path.append(c)
            outs.extend(self.exec_block(s1, stmts, i))
        if not any(e[1] == "default" for e in entries):
            s2 = st.copy()
            if case_vals:
                s2.path.append(z3.And(*[v.t != cv for cv in case_vals]))
            outs.append(("normal", s2, None))
        res = []
        for o in outs:
            if o[0] == "break":
                res.append(("normal", o[1], None))
            else:
                res.append(o)
        normals = [o[1] for o in res if o[0] == "normal"]
        return [o for o in res if o[0] != "normal"] + [("normal", s, None) for s in normals]

    # loops ---------------------------------------------------------------------------------
    def loop_index(self, n):
        """ordinal of loop statement n in source order within the function under execution (stable across paths)"""
        key = id(self.func)
        cache = self.__dict__.setdefault("_loop_idx", {})
        if key not in cache:
            idx = {}

            def walk(x):
                if isinstance(x, dict):
                    if x.get("kind") in ("WhileStmt", "DoStmt", "ForStmt"):
                        idx[id(x)] = len(idx)
                    for c in x.get("inner", []) or []:
                        walk(c)
            walk(self.func)
            cache[key] = idx
        return cache[key][id(n)]

    def exec_loop(self, st, n):
        k = n["kind"]
        ordinal = self.loop_index(n)
        inner = n["inner"]
        if k == "WhileStmt":
            init, cond, inc, body = None, inner[0], None, inner[1]
        elif k == "DoStmt":
            init, cond, inc, body = None, inner[1], None, inner[0]
        else:
            init, _cv, cond, inc, body = inner
            if init and init.get("kind"):
                outs = self.exec_stmt(st, init)
                st = outs[0][1]
            if not cond or not cond.get("kind"):
                cond = None
            if not inc or not inc.get("kind"):
                inc = None
        inv = self.opt["invariants"].get(ordinal)
        if inv is not None:
            return self.exec_loop_inv(st, n, ordinal, cond, inc, body, inv, k == "DoStmt")
        bound = self.opt["unroll"].get(ordinal)
        if bound is None:
            raise OutOfSubset("loop #%d has neither an invariant nor an unroll bound" % ordinal)
        return self.exec_loop_unroll(st, n, cond, inc, body, bound, k == "DoStmt")

    def exec_loop_unroll(self, st, n, cond, inc, body, bound, is_do):
        outs = []
        live = [st]
        for it in range(bound + 1):
            nxt = []
            for cur in live:
                if not (is_do and it == 0) and cond is not None:
                    c = z3.simplify(as_bool(self.ev(cur, cond)))
                    if not z3.is_true(c):
                        sx = cur.copy()
                        if not z3.is_false(c):
                            sx.path.append(z3.Not(c))
                            outs.append(("normal", sx, None))
                        else:
                            outs.append(("normal", sx, None))
                            continue
                    if z3.is_false(c):
                        continue
                    if not z3.is_true(c):
                        cur.path.append(c)
                if it == bound:
                    # unwinding assertion: the loop cannot need more than `bound` iterations
                    self.oblige(cur, "unwind", "loop_bound_%d" % bound, False, n)
                    continue
                for o in self.exec_stmt(cur, body):
                    if o[0] in ("normal", "continue"):
                        s2 = o[1]
                        if inc is not None:
                            self.ev(s2, inc)
                        cut = self.opt.get("unroll_cut", {}).get(self.loop_index(n))
                        if cut is not None:
                            # ghost assertions after iteration `it` (contract-supplied lemmas about the state): each is
                            # an obligation first and an assumption for what follows - never assumed without proof
                            facts = cut(self, s2, it)
                            tmp = s2.copy()
                            for label, f in facts:
                                # 'lemma.*' facts are closed arithmetic lemmas: proved valid without any context;
                                # the others are proved in the current state plus the facts before them
                                self.oblige(State() if label.startswith("lemma.") else tmp, "inv",
                                            "cut.iteration%d.%s" % (it, label), f, n)
                                tmp.path.append(f)
                            # variables the contract asks to abstract: from here on only the proven facts are known about
                            # them (sound: information is dropped), which keeps nested terms from piling up
                            subst = []
                            for nm in getattr(cut, "abstracts", ()):
                                for rid, vn in s2.names.items():
                                    v = s2.vars.get(rid)
                                    if vn == nm and isinstance(v, CV) and v.ty.is_int() and not z3.is_int_value(v.t) and not z3.is_const(v.t):
                                        t = self.fresh(nm + "@it%d" % it)
                                        subst.append((v.t, t))
                                        s2.vars[rid] = CV(v.ty, t)
                                        s2.path.append(z3.And(t >= v.ty.min, t <= v.ty.max))
                            for label, f in facts:
                                s2.path.append(z3.substitute(f, *subst) if subst else f)
                        nxt.append(s2)
                    elif o[0] == "break":
                        outs.append(("normal", o[1], None))
                    else:
                        outs.append(o)
            live = self.try_merge(nxt)
            if not live:
                break
        return outs

    def exec_loop_inv(self, st, n, ordinal, cond, inc, body, inv, is_do):
        """inv: object with .holds(ex, st) -> [(label, Bool)], .modifies (names) optional, .decreases(ex, st)."""
        if is_do:
            raise OutOfSubset("do-loop with invariant")
        if hasattr(inv, "bind"):
            # structural invariants (e.g. counted loops over compiler temporaries) read the loop's own condition /
            # increment and the state at loop entry instead of naming variables
            inv = inv.bind(self, st, n, cond, inc)
        for label, f in inv.holds(self, st):
            self.oblige(st, "inv", "entry.%s" % label, f, n)
        # havoc everything the loop may assign
        mod_vars, mod_objs = self.assigned(n)
        if getattr(inv, "modifies_objs", None) is not None:
            # frame stated by the contract: object-name prefixes the loop may write.  Checked, not trusted: every
            # store in the body goes through store()/stubs, which record the object in self.written
            mod_objs = tuple(inv.modifies_objs)
            self.written = set()
        h = st.copy()
        for rid in mod_vars:
            old = h.vars.get(rid)
            if old is None:
                continue
            if isinstance(old, Ptr):
                h.vars[rid] = Ptr(old.ty, old.obj, self.fresh(st.names.get(rid, "p") + "@loop%d" % ordinal))
            elif isinstance(old, CV):
                if old.ty.is_float():
                    h.vars[rid] = CV(old.ty, self.fresh(st.names.get(rid, "v") + "@loop%d" % ordinal, fp_sort(old.ty)))
                else:
                    t = self.fresh(st.names.get(rid, "v") + "@loop%d" % ordinal)
                    h.path.append(z3.And(t >= old.ty.min, t <= old.ty.max))
                    h.vars[rid] = CV(old.ty, t)
        for oname in list(h.mem):
            if mod_objs is None or oname in mod_objs or any(oname.startswith(m) for m in (mod_objs or ())):
                h.mem[oname] = self.fresh(oname + "@loop%d" % ordinal, h.mem[oname].sort())
        for label, f in inv.holds(self, h):
            h.path.append(f)
        outs = []
        # exit: invariant and not cond
        sx = h.copy()
        if cond is not None:
            c = as_bool(self.ev(sx, cond))
            sx.path.append(z3.Not(c))
            outs.append(("normal", sx, None))
            sb = h.copy()
            cb = as_bool(self.ev(sb, cond))
            sb.path.append(cb)
        else:
            sb = h.copy()
        measure0 = inv.decreases(self, sb) if getattr(inv, "decreases", None) else None
        body_outs = self.exec_stmt(sb, body)
        if getattr(inv, "modifies_objs", None) is not None:
            for w in self.written:
                if isinstance(w, str) and not any(w.startswith(m) for m in mod_objs):
                    raise StaleContract("loop #%d writes %s, which is outside the frame stated by its invariant" % (ordinal, w))
        for o in body_outs:
            if o[0] in ("normal", "continue"):
                s2 = o[1]
                if inc is not None:
                    self.ev(s2, inc)
                for label, f in inv.holds(self, s2):
                    self.oblige(s2, "inv", "step.%s" % label, f, n)
                if measure0 is not None:
                    m1 = inv.decreases(self, s2)
                    self.oblige(s2, "inv", "decreases", z3.And(m1 < measure0, measure0 >= 0), n)
            elif o[0] == "break":
                outs.append(("normal", o[1], None))
            else:
                outs.append(o)
        return outs

    def roles(self):
        """contract option `name_roles`: fn(function ast) -> {canonical name used by the contract: the variable's actual name},
        found STRUCTURALLY (e.g. 'the variable that indexes the first parameter'), so that renamed locals do not matter"""
        r = getattr(self, "_roles", None)
        if r is None:
            f = self.opt.get("name_roles")
            r = self._roles = dict(f(self.func)) if f else {}
        return r

    def local(self, st, name):
        """value of the local variable / parameter `name` in state st (for invariants)"""
        actual = self.roles().get(name, name)
        for rid, nm in st.names.items():
            if nm in (name, actual) and rid in st.vars:
                return st.vars[rid]
        raise StaleContract("no variable named %s" % name)

    def assigned(self, n):
        vars_, objs = set(), set()
        unknown_mem = [False]

        def walk(x):
            if not isinstance(x, dict):
                return
            k = x.get("kind")
            tgt = None
            if k == "BinaryOperator" and x.get("opcode") == "=":
                tgt = x["inner"][0]
            elif k == "CompoundAssignOperator":
                tgt = x["inner"][0]
            elif k == "UnaryOperator" and x.get("opcode") in ("++", "--"):
                tgt = x["inner"][0]
            elif k == "UnaryOperator" and x.get("opcode") == "&":
                tgt = x["inner"][0]
            elif k == "CallExpr":
                unknown_mem[0] = True
            if tgt is not None:
                t = tgt
                while t.get("kind") == "ParenExpr":
                    t = t["inner"][0]
                if t.get("kind") == "DeclRefExpr":
                    vars_.add(t["referencedDecl"]["id"])
                else:
                    unknown_mem[0] = True
            for c in x.get("inner", []):
                walk(c)
        walk(n)
        return vars_, (None if unknown_mem[0] else objs)

    # ---------------------------------------------------------------- entry point
    def run(self, st, args):
        """args: list of values for the parameters in order.  Returns [(state, value)] for each return path."""
        params = [c for c in self.func.get("inner", []) if c["kind"] == "ParmVarDecl"]
        if len(params) != len(args):
            raise StaleContract("%s takes %d parameters, contract describes %d" % (self.fname, len(params), len(args)))
        for p, a in zip(params, args):
            st.vars[p["id"]] = a
            st.names[p["id"]] = p.get("name", "?")
        body = [c for c in self.func["inner"] if c["kind"] == "CompoundStmt"][0]
        outs = self.exec_block(st, body.get("inner", []))
        res = []
        rty = self.return_type()
        for o in outs:
            if o[0] == "return":
                res.append((o[1], o[2]))
            elif o[0] == "normal":
                if rty.kind != "void":
                    self.oblige(o[1], "ub", "missing_return", False, self.func)
                res.append((o[1], None))
            else:
                raise OutOfSubset("stray %s at function level" % o[0])
        return res

    def decl_ids(self):
        """name -> (decl id, type) of every parameter and local variable of the function"""
        out = {}

        def walk(x):
            if isinstance(x, dict):
                if x.get("kind") in ("VarDecl", "ParmVarDecl") and x.get("name"):
                    out.setdefault(x["name"], (x["id"], node_type(x)))
                for c in x.get("inner", []) or []:
                    walk(c)
        walk(self.func)
        for canon, actual in self.roles().items():
            if actual in out:
                out[canon] = out[actual]
        return out

    def run_fragment(self, st, stmt, values):
        """execute one statement of the function from a state in which the named variables hold `values`"""
        ids = self.decl_ids()
        for nm, v in values.items():
            if nm not in ids:
                raise StaleContract("variable %s not found in %s" % (nm, self.fname))
            st.vars[ids[nm][0]] = v
            st.names[ids[nm][0]] = nm
        for nm, (i, _t) in ids.items():
            st.names.setdefault(i, nm)
        return self.exec_stmt(st, stmt), ids

    def param_types(self):
        return [(c.get("name", "?"), node_type(c)) for c in self.func.get("inner", []) if c["kind"] == "ParmVarDecl"]

    def return_type(self):
        q = self.func["type"]["qualType"]
        return parse_type(q[:q.index("(")].strip())


class MergeFail(Exception):
    pass


# ------------------------------------------------------------------------------- JSON loading

def load_ast_objects(text):
    """clang prints one JSON object per matched declaration when -ast-dump-filter is used."""
    dec = json.JSONDecoder()
    i, objs = 0, []
    n = len(text)
    while i < n:
        while i < n and text[i].isspace():
            i += 1
        if i >= n:
            break
        o, j = dec.raw_decode(text, i)
        objs.append(o)
        i = j
    for o in objs:
        annotate_lines(o)
    return objs


def annotate_lines(root):
    """clang omits 'line' when unchanged from the previously printed location; make it explicit (_line)."""
    last = [0]

    def visit_loc(d):
        if "spellingLoc" in d or "expansionLoc" in d:
            for k in ("spellingLoc", "expansionLoc"):
                if k in d:
                    visit_loc(d[k])
            return
        if "line" in d:
            last[0] = d["line"]

    def walk(n):
        if not isinstance(n, dict):
            return
        loc = n.get("loc")
        if isinstance(loc, dict):
            visit_loc(loc)
        rng = n.get("range")
        first = None
        if isinstance(rng, dict):
            b = rng.get("begin")
            if isinstance(b, dict):
                visit_loc(b)
                first = last[0]
                # expansionLoc gives the line in the file for macro bodies
                if "expansionLoc" in b and "line" in b["expansionLoc"]:
                    first = b["expansionLoc"]["line"]
            e = rng.get("end")
            if isinstance(e, dict):
                visit_loc(e)
        n["_line"] = first if first is not None else last[0]
        for c in n.get("inner", []) or []:
            walk(c)
    walk(root)
