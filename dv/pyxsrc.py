"""Mechanical extraction of Python-semantics functions from a Cython (.pyx) source, for the Python front end.

cut(src, names) returns (python_text, dropped): for each named top-level `cdef` / `def` function
  * the header `cdef <ret type> name(<C-typed or annotated params>) [except ...] [noexcept] [nogil]:` becomes `def name(<param names>):`
  * body lines `cdef <type> a = v` become `a = v`;  `cdef <type> a, b, c` (declarations without a value) are removed
  * `cython.unlikely(X)` / `cython.likely(X)` become `(X)`;  casts `<type> x` become `x`
Everything else is kept byte for byte.  What this drops - and the front end therefore does not see - is reported: the C types of
parameters and locals (machine integers are then mathematical integers; the contract states the ranges it needs), the return type, the
exception specification, and the cast's type check.  Anything the rewriting does not recognise (a remaining `cdef`, `<`-cast, `&`) stops
the extraction (StaleContract): nothing is guessed.
"""
import re

from .pyfe import StaleContract

HEAD = re.compile(r"^(?:cdef|cpdef|def)\s+(?:[^()\n]*?\s)?(\w+)\((.*)\)\s*(?:except\s*[^:]*|noexcept)?\s*(?:nogil)?\s*:\s*$")
CAST = re.compile(r"<\s*[\w\[\], *]+\s*>\s*")


def _param(p):
    p = p.strip()
    if ":" in p:                       # name: annotation
        p = p.split(":", 1)[0].strip()
    default = None
    if "=" in p:
        p, default = [x.strip() for x in p.split("=", 1)]
    name = p.split()[-1].lstrip("*&")
    return name if default is None else "%s=%s" % (name, default)


def cut(src, names):
    lines = src.split("\n")
    out, dropped = [], set()
    for name in names:
        start = None
        for i, ln in enumerate(lines):
            m = HEAD.match(ln)
            if m and m.group(1) == name and not ln[0].isspace():
                start, head = i, m
                break
        if start is None:
            raise StaleContract("function %s not found in the .pyx source" % name)
        params = [_param(p) for p in _split_params(head.group(2))] if head.group(2).strip() else []
        out.append("def %s(%s):" % (name, ", ".join(params)))
        dropped.add("%s: C types of parameters and locals, return type, exception specification (Cython declarations; integers are mathematical)" % name)
        j = start + 1
        while j < len(lines) and (not lines[j].strip() or lines[j][0].isspace() or lines[j].lstrip().startswith("#") and lines[j][0].isspace()):
            ln = lines[j]
            j += 1
            body = ln.strip()
            ind = ln[:len(ln) - len(ln.lstrip())]
            if body.startswith("cdef "):
                decl = body[5:]
                if "=" in decl:
                    lhs, rhs = decl.split("=", 1)
                    ln = "%s%s = %s" % (ind, lhs.split()[-1], rhs.strip())
                else:
                    ln = "%spass" % ind
            if "cython.unlikely(" in ln or "cython.likely(" in ln:
                ln = ln.replace("cython.unlikely(", "(").replace("cython.likely(", "(")
            if CAST.search(ln) and not body.startswith("#"):
                ln2 = CAST.sub("", ln)
                dropped.add("%s: the type check of a cast `<T> x`" % name)
                ln = ln2
            out.append(ln)
        while out and not out[-1].strip():
            out.pop()
        out.append("")
    text = "\n".join(out) + "\n"
    for bad in (r"^\s*cdef\b", r"&\w"):
        if re.search(bad, text, re.M):
            raise StaleContract("the .pyx function uses a construct the extraction does not rewrite (%s)" % bad)
    return text, sorted(dropped)


def _split_params(s):
    parts, depth, cur = [], 0, ""
    for ch in s:
        if ch in "([{":
            depth += 1
        elif ch in ")]}":
            depth -= 1
        if ch == "," and depth == 0:
            parts.append(cur)
            cur = ""
        else:
            cur += ch
    if cur.strip():
        parts.append(cur)
    return parts
